#!/usr/bin/env python3
"""Developer tool: list the harnesses each property's check would run (no solver)."""
import os, sys, tempfile
sys.path.insert(0, os.path.dirname(os.path.dirname(os.path.abspath(__file__))))
from vlib import props
tier = sys.argv[1] if len(sys.argv) > 1 else "quick"
only = sys.argv[2:] 
for pid in sorted(props.PROPS):
    if only and pid not in only:
        continue
    units = props.PROPS[pid]["units"](tier, 0)
    tot = 0
    for u in units:
        hd = tempfile.mkdtemp()
        if u.get("gen_fn"):
            u["gen_fn"](hd, tier)
        meta = u["load_meta"](hd) if u.get("load_meta") else None
        hs = u["harnesses"](tier, meta)
        import shutil
        shutil.rmtree(hd, ignore_errors=True)
        tot += len(hs)
        print("%s %-8s %3d  %s" % (pid, u["name"], len(hs), " ".join(h.split("::")[-1] for h in hs[:400]) if only else ""))
    print("%s total %d" % (pid, tot))
