#!/usr/bin/env python3
"""Replaces the seed table in DESIGN.md section 8 by the output of tools/muttable.py."""
import subprocess, re
t = subprocess.run(["python3", "/verif/tools/muttable.py"], stdout=subprocess.PIPE, text=True).stdout.strip()
p = "/verif/DESIGN.md"; s = open(p).read()
i = s.index("| seed | property | file | result |")
j = s.index("\n\n", i)
s = s[:i] + t + s[j:]
open(p, "w").write(s)
