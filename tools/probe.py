#!/usr/bin/env python3
"""Developer probe: run given harnesses once and print a summary.
usage: probe.py <config real|shim> <inject: src=harness,...> <timeout> <jobs> [--std] [--feat dir] [--tier quick] harness...
"""
import json, os, sys, time
sys.path.insert(0, os.path.dirname(os.path.dirname(os.path.abspath(__file__))))
from vlib import scratch, kani, gen_range, gen_ae, gen_serve, gen_precond, gen_chunker, gen_mp

def main():
    a = sys.argv[1:]
    config, inj, timeout, jobs = a[0], a[1], int(a[2]), int(a[3])
    rest = a[4:]
    std = False; feats = []; tier = "quick"; extra = []
    hs = []
    i = 0
    while i < len(rest):
        if rest[i] == "--std": std = True
        elif rest[i] == "--feat": feats.append(rest[i+1]); i += 1
        elif rest[i] == "--tier": tier = rest[i+1]; i += 1
        elif rest[i] == "--extra": extra.append(rest[i+1]); i += 1
        else: hs.append(rest[i])
        i += 1
    inject = dict(x.split("=") for x in inj.split(",") if x)
    def gen(hdir):
        gen_range.generate(tier, os.path.join(hdir, "range_gen.rs"), os.path.join(hdir, "range_meta.json"))
        gen_ae.generate(tier, os.path.join(hdir, "ae_gen.rs"), os.path.join(hdir, "ae_meta.json"))
        gen_serve.generate(tier, os.path.join(hdir, "serve_gen.rs"), os.path.join(hdir, "serve_meta.json"))
        gen_precond.generate(tier, os.path.join(hdir, "precond_gen.rs"), os.path.join(hdir, "precond_meta.json"))
        gen_chunker.generate(tier, os.path.join(hdir, "chunker_gen.rs"), os.path.join(hdir, "chunker_meta.json"))
        gen_mp.generate(tier, os.path.join(hdir, "mp_gen.rs"), os.path.join(hdir, "mp_meta.json"))
    ws = scratch.Workspace(config, inject, features=feats, std_model=std, gen=gen, keep=bool(os.environ.get("KEEP")))
    logdir = os.path.join("/var/tmp", "probe-logs-%d" % os.getpid())
    os.makedirs(logdir, exist_ok=True)
    with open(os.path.join(logdir, "prep.log"), "w") as lf:
        ok = ws.prepare_lock(lf)
    print("workspace", ws.dir, "logs", logdir, "lock ok", ok, flush=True)
    t0 = time.time()
    rs = kani.run_many(ws, hs, timeout, logdir, jobs=jobs, extra=extra)
    for r in rs:
        print("== %s: %s %s time=%s wall=%.0f checks=%d failed=%d unwind=%d undet=%d vccs=%s" % (
            r.name, r.status, r.reason[:300], r.time_s, getattr(r, "wall_s", -1), r.checks_total, r.checks_failed, r.unwind_failures, r.undetermined, r.vccs))
        for f in r.failed[:8]: print("     FAILED:", f)
        for c in r.covers: print("     cover:", c[1], c[0])
        if r.playback: print("     playback:", r.playback)
    print("total wall %.0fs" % (time.time() - t0))
    ws.cleanup()

main()
