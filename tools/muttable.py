#!/usr/bin/env python3
"""Prints the markdown table of seeded changes and which checks caught them (from seeded/*/meta.json)."""
import json, glob, os, re
rows = []
for d in sorted(glob.glob("/verif/seeded/*")):
    m = json.load(open(os.path.join(d, "meta.json")))
    patch = open(os.path.join(d, "patch.diff")).read()
    files = sorted(set(re.findall(r"^\+\+\+ b/(\S+)", patch, re.M)))
    cb = m.get("caught_by") or []
    res = "; ".join("%s %s: %s" % (c["check"], c["tier"], ("**caught** — " if c["caught"] else ("inconclusive — " if c["exit"] == 2 else "**missed** — ")) + c["summary"]) for c in cb) or "not run"
    rows.append("| %s | %s | %s | %s |" % (m["name"], m["breaks_property"], ", ".join(files), res))
print("| seed | property | file | result |\n|---|---|---|---|")
print("\n".join(rows))
