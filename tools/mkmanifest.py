#!/usr/bin/env python3
"""Writes /verif/MANIFEST.json from the property registry."""
import json, os, sys
sys.path.insert(0, os.path.dirname(os.path.dirname(os.path.abspath(__file__))))
from vlib import props

ALL = ["C%02d" % i for i in range(1, 21)]
NA = getattr(props, "NOT_APPLICABLE", {})
PENDING = "check not built yet in this round (planned in DESIGN.md section 4)"

checks = []
for p in ALL:
    if p not in props.PROPS:
        continue
    s = props.PROPS[p]
    checks.append({
        "property_id": p,
        "quick_cmd": "python3 run_check.py %s --tier quick" % p,
        "thorough_cmd": "python3 run_check.py %s --tier thorough" % p,
        "evidence_file": "evidence/%s.json" % p,
        "replay_cmd_template": "python3 run_check.py --replay {path}",
        "engine": "kani-k2",
        "level_claimed": {
            "category": "model_checking",
            "text": s.get("level_text", "Bounded model checking of the real code: the compiled functions are executed symbolically (Kani/CBMC, SAT) with the inputs the property quantifies over left symbolic inside the stated bounds; the solver's verdict covers every value inside the bounds and says nothing outside them. Counterexamples are replayed against the real build before they are reported."),
            "design_ref": s.get("design_ref", "DESIGN.md section 4, " + p),
        },
        "level_note": (("PARTIAL CLAIM (" + s["level_note_extra"] + "). ") if s.get("level_note_extra") else "") + s.get("level_note", "Trusted: the model crates and std model listed in the evidence (assumptions), Kani/CBMC, the stated bounds. Outside the claim: " + "; ".join(s.get("outside", [])[:4])),
        "technique": s.get("technique", "bounded model checking (Kani/CBMC SAT) of /repo's compiled source with symbolic inputs; native replay of counterexamples"),
    })
na = []
for p in ALL:
    if p in props.PROPS:
        continue
    na.append({"property_id": p, "reason": NA.get(p, PENDING)})

m = {
    "version": 1,
    "setup_cmd": "python3 tools/setup.py",
    "hooks": {
        "guard": "cfg(kani) (set by the Kani compiler only); harness modules and std-model `use` redirections are injected into a scratch copy of /repo at check time",
        "enable": "cargo kani on a scratch copy of /repo's working tree (vlib/scratch.py); nothing is committed to /repo",
        "baseline_off_cmd": "cd /repo && cargo test --workspace --no-fail-fast --offline",
        "source_commits": [],
        "add_only": True,
    },
    "engines": [
        {"name": "kani-k2", "path": "run_check.py", "serves_properties": [c["property_id"] for c in checks],
         "kind_free_text": "Kani 0.68 / CBMC 6.11 bounded model checking of /repo/src compiled against model crates (shims/) and a std model (harness/verif_std.rs); harnesses in harness/*_h.rs; native replayer in replay/"},
    ],
    "checks": checks,
    "not_applicable": na,
    "notes": "All checks: python3 run_check.py <Cxx> --tier quick|thorough. Exit 0 holds / 1 violation / 2 inconclusive.",
}
json.dump(m, open(os.path.join(os.path.dirname(os.path.dirname(os.path.abspath(__file__))), "MANIFEST.json"), "w"), indent=1)
print("checks:", [c["property_id"] for c in checks], "n/a:", [x["property_id"] for x in na])
