#!/usr/bin/env python3
"""record_mut.py <seed> <prop> <tier> <exit> <summary...>: writes caught_by into seeded/<seed>/meta.json"""
import json, sys
seed, prop, tier, rc = sys.argv[1:5]
summary = " ".join(sys.argv[5:])
p = "/verif/seeded/%s/meta.json" % seed
m = json.load(open(p))
cb = m.get("caught_by") or []
cb = [c for c in cb if not (c["check"] == prop and c["tier"] == tier)]
cb.append({"check": prop, "tier": tier, "exit": int(rc), "caught": int(rc) == 1, "summary": summary})
m["caught_by"] = cb
json.dump(m, open(p, "w"), indent=1)
open(p, "a").write("\n")
