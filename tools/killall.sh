#!/bin/bash
# stops every verification process started from this sandbox session
for p in $(ps -eo pid,args | grep -E "python3 (tools/probe|run_check)" | grep -v grep | awk '{print $1}'); do kill $p 2>/dev/null; done
pkill -x timeout; pkill -x cbmc; pkill -x cargo-kani; pkill -x kani-driver; pkill -x kani-compiler; pkill -x goto-instrument
sleep 1
rm -rf /var/tmp/hs-verif.* /var/tmp/hs-replay.*
