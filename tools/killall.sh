#!/bin/bash
# stops every verification process started from this sandbox session
for p in $(ps -eo pid,comm,args | awk '$2 ~ /^python3/ && ($0 ~ /tools\/probe/ || $0 ~ /run_check/) {print $1}'); do kill $p 2>/dev/null; done
pkill -x timeout; pkill -x cbmc; pkill -x cargo-kani; pkill -x kani-driver; pkill -x kani-compiler; pkill -x goto-instrument
sleep 1
pkill -9 -x cbmc
rm -rf /var/tmp/hs-verif.* /var/tmp/hs-replay.*
exit 0
