#!/bin/bash
# usage: mutest.sh <seed name> <property> [tier]
# Runs one check against a scratch worktree of /repo with the seeded change applied
# (equivalent to `git -C /repo apply`; a worktree lets several seeds be tried in parallel).
SEED=$1; PROP=$2; TIER=${3:-quick}
W=/tmp/mrepo-$SEED-$PROP
git -C /repo worktree remove --force $W >/dev/null 2>&1
git -C /repo worktree add -q $W HEAD || exit 2
( cd $W && git apply /verif/seeded/$SEED/patch.diff ) || { echo "patch failed"; exit 2; }
cd /verif
mkdir -p /var/tmp/mut-out/$SEED-$PROP
VERIF_OUT=/var/tmp/mut-out/$SEED-$PROP VERIF_REPO=$W python3 run_check.py $PROP --tier $TIER > /var/tmp/mut-$SEED-$PROP.out 2>&1
rc=$?
echo "== seed=$SEED check=$PROP tier=$TIER exit=$rc"
grep -E "VIOLATION|KNOWN-FINDING|what:|tier=|inconclusive" /var/tmp/mut-$SEED-$PROP.out | cut -c1-260 | head -8
git -C /repo worktree remove --force $W
exit $rc
