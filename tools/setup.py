#!/usr/bin/env python3
"""setup_cmd: offline. Warms dependency build caches under /verif/.cache (nothing derived from
/repo/src is kept) and checks that the tools the checks need are present."""
import os, shutil, subprocess, sys
sys.path.insert(0, os.path.dirname(os.path.dirname(os.path.abspath(__file__))))
from vlib import scratch

def main():
    os.makedirs(scratch.CACHE, exist_ok=True)
    for tool in ["cargo-kani", "cbmc", "cargo"]:
        if shutil.which(tool) is None:
            print("missing tool:", tool); sys.exit(1)
    r = subprocess.run(["cargo", "kani", "--version"], env=scratch.ENV, stdout=subprocess.PIPE, stderr=subprocess.STDOUT, text=True)
    print(r.stdout.strip())
    print("setup ok")

main()
