#!/usr/bin/env python3
"""setup_cmd: offline. Warms DEPENDENCY build caches under /verif/.cache (nothing derived from
/repo/src is kept: the crate under verification is rebuilt from /repo on every check) and
checks that the tools the checks need are present."""
import os, shutil, subprocess, sys, time
sys.path.insert(0, os.path.dirname(os.path.dirname(os.path.abspath(__file__))))
from vlib import scratch, replay, gen_range, gen_ae, gen_serve, gen_precond, gen_chunker, gen_mp


def gen_all(hdir):
    gen_range.generate("quick", os.path.join(hdir, "range_gen.rs"), os.path.join(hdir, "range_meta.json"))
    gen_ae.generate("quick", os.path.join(hdir, "ae_gen.rs"), os.path.join(hdir, "ae_meta.json"))
    gen_serve.generate("quick", os.path.join(hdir, "serve_gen.rs"), os.path.join(hdir, "serve_meta.json"))
    gen_precond.generate("quick", os.path.join(hdir, "precond_gen.rs"), os.path.join(hdir, "precond_meta.json"))
    gen_chunker.generate("quick", os.path.join(hdir, "chunker_gen.rs"), os.path.join(hdir, "chunker_meta.json"))
    gen_mp.generate("quick", os.path.join(hdir, "mp_gen.rs"), os.path.join(hdir, "mp_meta.json"))


def warm_kani(features):
    name = "kani-target-shim" + ("-" + "-".join(features) if features else "")
    dst = os.path.join(scratch.CACHE, name)
    ws = scratch.Workspace("shim", {"body.rs": "body_h.rs"}, features=features, gen=gen_all)
    try:
        with open(os.devnull, "w") as dn:
            ws.prepare_lock(dn)
        tgt = os.path.join(ws.dir, "target")
        args = ["cargo", "kani", "--harness", "body::verif_h::body_from", "--exact", "-Z", "stubbing", "-Z", "restrict-vtable",
                "--target-dir", tgt, "--no-memory-safety-checks", "--no-assertion-reach-checks", "-Z", "unstable-options"]
        if features:
            args += ["--features", ",".join(features)]
        t0 = time.time()
        r = subprocess.run(args, cwd=ws.crate, env=scratch.ENV, stdout=subprocess.PIPE, stderr=subprocess.STDOUT, text=True)
        ok = "VERIFICATION:- SUCCESSFUL" in r.stdout
        print("warm %s: %s in %.0fs" % (name, "ok" if ok else "FAILED", time.time() - t0))
        if not ok:
            print(r.stdout[-3000:])
            return False
        # keep only dependency artifacts: drop everything of the crate under verification
        for root, dirs, files in os.walk(tgt):
            for f in files:
                if "http_serve" in f or "http-serve" in f:
                    os.remove(os.path.join(root, f))
            for d in list(dirs):
                if d.startswith("http-serve-") or d.startswith("http_serve-"):
                    shutil.rmtree(os.path.join(root, d), ignore_errors=True)
        shutil.rmtree(dst, ignore_errors=True)
        shutil.copytree(tgt, dst, symlinks=True)
        return True
    finally:
        ws.cleanup()


def warm_replay():
    with open(os.devnull, "w") as dn:
        rp = replay.Replayer(dn)
        try:
            ok = rp.build("debug") is not None and rp.build("release") is not None
            print("warm replay-target:", "ok" if ok else "FAILED")
            if ok:
                tgt = rp.target
                for prof in ("debug", "release"):
                    for sub in ("", "deps", ".fingerprint", "incremental", "build"):
                        d = os.path.join(tgt, prof, sub)
                        if not os.path.isdir(d):
                            continue
                        for f in os.listdir(d):
                            if f.startswith(("hs_replay", "hs-replay", "libhttp_serve", "http_serve", "http-serve")):
                                p = os.path.join(d, f)
                                shutil.rmtree(p, ignore_errors=True) if os.path.isdir(p) else os.remove(p)
                dst = replay.SEED
                shutil.rmtree(dst, ignore_errors=True)
                shutil.copytree(tgt, dst, symlinks=True)
            return ok
        finally:
            rp.cleanup()


def main():
    os.makedirs(scratch.CACHE, exist_ok=True)
    for tool in ["cargo-kani", "cbmc", "cargo"]:
        if shutil.which(tool) is None:
            print("missing tool:", tool)
            sys.exit(1)
    r = subprocess.run(["cargo", "kani", "--version"], env=scratch.ENV, stdout=subprocess.PIPE, stderr=subprocess.STDOUT, text=True)
    print(r.stdout.strip())
    ok = warm_kani(()) and warm_kani(("dir",)) and warm_replay()
    print("setup", "ok" if ok else "FAILED")
    sys.exit(0 if ok else 1)


main()
