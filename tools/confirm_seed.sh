#!/bin/bash
# usage: confirm_seed.sh <agent worktree> <seed name> <property id>
# Confirms independently (fresh worktree of /repo HEAD) that the seeded change compiles, keeps
# the 35 existing tests green, makes its demonstration fail, and that the demonstration passes
# without it. On success stores /verif/seeded/<name>/{patch.diff,demo.rs,MUTATION.md,meta.json}.
set -u
SRC=$1; NAME=$2; PROP=$3
W=/tmp/confirm-$NAME
git -C /repo worktree remove --force $W >/dev/null 2>&1
git -C /repo worktree add -q $W HEAD || exit 2
DEMO=$(ls $SRC/tests/demo_*.rs | head -1)
cp $DEMO $W/tests/
DN=$(basename $DEMO .rs)
cd $W
export CARGO_TARGET_DIR=/tmp/confirm-target
r_clean=$(cargo test --offline ${SEED_FEATURES:+--features $SEED_FEATURES} --test $DN 2>&1 | grep -E "^test result" | tail -1)
git apply $SRC/patch.diff || { echo "patch does not apply"; exit 2; }
r_base=$(cargo test --offline --no-fail-fast --lib --test chunked-acceptance --test entity-acceptance 2>&1 | grep -E "^test result" | tr '\n' ' ')
r_mut=$(cargo test --offline ${SEED_FEATURES:+--features $SEED_FEATURES} --test $DN 2>&1 | grep -E "^test result" | tail -1)
echo "demo on clean tree : $r_clean"
echo "35 tests on mutant : $r_base"
echo "demo on mutant     : $r_mut"
ok=1
echo "$r_clean" | grep -q "0 failed" || ok=0
echo "$r_clean" | grep -q "test result: ok" || ok=0
echo "$r_base" | grep -q "FAILED" && ok=0
n=$(echo "$r_base" | grep -o "[0-9]* passed" | awk '{s+=$1} END {print s}')
[ "$n" = "35" ] || ok=0
echo "$r_mut" | grep -q "FAILED" || ok=0
if [ $ok = 1 ]; then
  D=/verif/seeded/$NAME; mkdir -p $D
  cp $SRC/patch.diff $D/patch.diff; cp $DEMO $D/demo.rs; cp $SRC/MUTATION.md $D/MUTATION.md 2>/dev/null
  python3 - "$D" "$PROP" "$NAME" "$r_clean" "$r_base" "$r_mut" <<'PY'
import json, sys
d, prop, name, rc, rb, rm = sys.argv[1:]
json.dump({"name": name, "breaks_property": prop, "confirmed": {"demo_on_clean_tree": rc, "existing_35_tests_on_mutant": rb, "demo_on_mutant": rm},
           "how_confirmed": "tools/confirm_seed.sh: fresh worktree of /repo HEAD; cargo test --offline (lib + chunked-acceptance + entity-acceptance = 35 tests) with the patch; demo test with and without the patch",
           "needs_to_manifest": "see MUTATION.md", "caught_by": None}, open(d + "/meta.json", "w"), indent=1)
PY
  echo "CONFIRMED -> $D"
else
  echo "NOT CONFIRMED"
fi
cd /; git -C /repo worktree remove --force $W
exit $((1-ok))
