//! Verification MODEL of the `httpdate` crate (engine K2 of /verif/DESIGN.md).
//!
//! Contract kept (and checked against the real crate by the conformance suite):
//!   * `fmt_http_date(t)` depends only on `t` truncated to whole seconds; it panics for
//!     instants before the Unix epoch and from year 10000 on (like the real crate);
//!   * `parse_http_date(fmt_http_date(t)) == t` truncated to whole seconds;
//!   * every successfully parsed instant is a whole number of seconds since the epoch.
//!
//! Representation: a date string is the 9 bytes `@` + 8 bytes, each `0x40 | nibble-pair`...
//! kept trivial: `@` followed by 16 characters `a`..`p`, one per nibble of the seconds
//! count (most significant first). Strings of any other shape do not parse.
//! Harnesses get `model_token(secs)` to write request dates.

use std::time::{Duration, SystemTime, UNIX_EPOCH};

#[derive(Debug)]
pub struct Error(());
impl std::error::Error for Error {}
impl std::fmt::Display for Error {
    fn fmt(&self, f: &mut std::fmt::Formatter) -> Result<(), std::fmt::Error> {
        f.write_str("string contains no or an invalid date")
    }
}
impl From<Error> for std::io::Error {
    fn from(e: Error) -> std::io::Error {
        std::io::Error::new(std::io::ErrorKind::Other, e)
    }
}

/// 9999-12-31T23:59:59Z
pub const MAX_SECS: u64 = 253402300799;

pub fn model_token_bytes(secs: u64) -> [u8; 17] {
    let mut out = [b'@'; 17];
    // two nested loops of 4 (small unwinding bound)
    let mut o = 0;
    while o < 4 {
        let mut j = 0;
        while j < 4 {
            let i = o * 4 + j;
            let nib = ((secs >> (60 - 4 * i)) & 0xf) as u8;
            out[1 + i] = b'a' + nib;
            j += 1;
        }
        o += 1;
    }
    out
}

/// MODEL-ONLY: the text of the date `secs` seconds after the epoch.
pub fn model_token(secs: u64) -> String {
    let b = model_token_bytes(secs);
    unsafe { String::from_utf8_unchecked(b.to_vec()) }
}

/// MODEL-ONLY: inverse of `model_token` on raw bytes.
pub fn model_parse_bytes(b: &[u8]) -> Option<u64> {
    if b.len() != 17 || b[0] != b'@' {
        return None;
    }
    let mut v: u64 = 0;
    let mut o = 0;
    while o < 4 {
        let mut j = 0;
        while j < 4 {
            let c = b[1 + o * 4 + j];
            if c < b'a' || c > b'p' {
                return None;
            }
            v = (v << 4) | (c - b'a') as u64;
            j += 1;
        }
        o += 1;
    }
    if v > MAX_SECS {
        return None;
    }
    Some(v)
}

pub fn parse_http_date(s: &str) -> Result<SystemTime, Error> {
    match model_parse_bytes(s.as_bytes()) {
        Some(v) => Ok(UNIX_EPOCH + Duration::from_secs(v)),
        None => Err(Error(())),
    }
}

pub fn fmt_http_date(d: SystemTime) -> String {
    let dur = d
        .duration_since(UNIX_EPOCH)
        .expect("all times should be after the epoch");
    let secs = dur.as_secs();
    if secs > MAX_SECS {
        panic!("date must be before year 9999");
    }
    model_token(secs)
}
