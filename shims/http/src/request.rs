//! Model of `http::request`.

use crate::header::{HeaderMap, HeaderName, HeaderValue};
use crate::method::Method;
use crate::{Extensions, Result, Version};
use std::convert::TryFrom;

/// URI placeholder (http-serve never looks at it).
#[derive(Clone, Debug, Default, PartialEq, Eq)]
pub struct Uri;

#[derive(Debug)]
pub struct Request<T> {
    head: Parts,
    body: T,
}

#[derive(Debug)]
pub struct Parts {
    pub method: Method,
    pub uri: Uri,
    pub version: Version,
    pub headers: HeaderMap<HeaderValue>,
    pub extensions: Extensions,
    _priv: (),
}

impl Parts {
    fn new() -> Parts {
        Parts {
            method: Method::default(),
            uri: Uri,
            version: Version::default(),
            headers: HeaderMap::default(),
            extensions: Extensions::default(),
            _priv: (),
        }
    }
}

#[derive(Debug)]
pub struct Builder {
    inner: Result<Parts>,
}

impl Request<()> {
    pub fn builder() -> Builder {
        Builder::new()
    }
}

impl<T> Request<T> {
    pub fn new(body: T) -> Request<T> {
        Request { head: Parts::new(), body }
    }
    pub fn from_parts(parts: Parts, body: T) -> Request<T> {
        Request { head: parts, body }
    }
    pub fn method(&self) -> &Method {
        &self.head.method
    }
    pub fn method_mut(&mut self) -> &mut Method {
        &mut self.head.method
    }
    pub fn uri(&self) -> &Uri {
        &self.head.uri
    }
    pub fn version(&self) -> Version {
        self.head.version
    }
    pub fn headers(&self) -> &HeaderMap<HeaderValue> {
        &self.head.headers
    }
    pub fn headers_mut(&mut self) -> &mut HeaderMap<HeaderValue> {
        &mut self.head.headers
    }
    pub fn extensions(&self) -> &Extensions {
        &self.head.extensions
    }
    pub fn extensions_mut(&mut self) -> &mut Extensions {
        &mut self.head.extensions
    }
    pub fn body(&self) -> &T {
        &self.body
    }
    pub fn body_mut(&mut self) -> &mut T {
        &mut self.body
    }
    pub fn into_body(self) -> T {
        self.body
    }
    pub fn into_parts(self) -> (Parts, T) {
        (self.head, self.body)
    }
    pub fn map<F, U>(self, f: F) -> Request<U>
    where
        F: FnOnce(T) -> U,
    {
        Request { body: f(self.body), head: self.head }
    }
}

impl Builder {
    pub fn new() -> Builder {
        Builder { inner: Ok(Parts::new()) }
    }
    pub fn method<T>(self, method: T) -> Builder
    where
        Method: TryFrom<T>,
        <Method as TryFrom<T>>::Error: Into<crate::Error>,
    {
        self.and_then(move |mut head| {
            head.method = TryFrom::try_from(method).map_err(Into::into)?;
            Ok(head)
        })
    }
    pub fn uri<T>(self, _uri: T) -> Builder {
        self
    }
    pub fn version(self, version: Version) -> Builder {
        self.and_then(move |mut head| {
            head.version = version;
            Ok(head)
        })
    }
    pub fn header<K, V>(self, key: K, value: V) -> Builder
    where
        HeaderName: TryFrom<K>,
        <HeaderName as TryFrom<K>>::Error: Into<crate::Error>,
        HeaderValue: TryFrom<V>,
        <HeaderValue as TryFrom<V>>::Error: Into<crate::Error>,
    {
        self.and_then(move |mut head| {
            let name = <HeaderName as TryFrom<K>>::try_from(key).map_err(Into::into)?;
            let value = <HeaderValue as TryFrom<V>>::try_from(value).map_err(Into::into)?;
            head.headers.append(name, value);
            Ok(head)
        })
    }
    pub fn headers_mut(&mut self) -> Option<&mut HeaderMap<HeaderValue>> {
        self.inner.as_mut().ok().map(|h| &mut h.headers)
    }
    pub fn body<T>(self, body: T) -> Result<Request<T>> {
        self.inner.map(move |head| Request { head, body })
    }
    fn and_then<F>(self, func: F) -> Self
    where
        F: FnOnce(Parts) -> Result<Parts>,
    {
        Builder { inner: self.inner.and_then(func) }
    }
}
impl Default for Builder {
    fn default() -> Builder {
        Builder::new()
    }
}
