//! Model of `http::Method`: standard methods plus opaque extension tokens.

#[derive(Clone, Debug, PartialEq, Eq, Hash)]
pub struct Method(Inner);

pub const EXT_CAP: usize = 8;

#[derive(Clone, Copy, Debug, PartialEq, Eq, Hash)]
enum Inner {
    Options,
    Get,
    Post,
    Put,
    Delete,
    Head,
    Trace,
    Connect,
    Patch,
    /// Extension token (validated), kept inline: at most EXT_CAP bytes in the model.
    Ext([u8; EXT_CAP], u8),
}

#[derive(Debug)]
pub struct InvalidMethod {
    _p: (),
}
impl std::fmt::Display for InvalidMethod {
    fn fmt(&self, f: &mut std::fmt::Formatter<'_>) -> std::fmt::Result {
        f.write_str("invalid HTTP method")
    }
}
impl std::error::Error for InvalidMethod {}

impl Method {
    pub const GET: Method = Method(Inner::Get);
    pub const POST: Method = Method(Inner::Post);
    pub const PUT: Method = Method(Inner::Put);
    pub const DELETE: Method = Method(Inner::Delete);
    pub const HEAD: Method = Method(Inner::Head);
    pub const OPTIONS: Method = Method(Inner::Options);
    pub const CONNECT: Method = Method(Inner::Connect);
    pub const PATCH: Method = Method(Inner::Patch);
    pub const TRACE: Method = Method(Inner::Trace);

    pub fn from_bytes(src: &[u8]) -> Result<Method, InvalidMethod> {
        Ok(Method(match src {
            b"GET" => Inner::Get,
            b"POST" => Inner::Post,
            b"PUT" => Inner::Put,
            b"DELETE" => Inner::Delete,
            b"HEAD" => Inner::Head,
            b"OPTIONS" => Inner::Options,
            b"CONNECT" => Inner::Connect,
            b"PATCH" => Inner::Patch,
            b"TRACE" => Inner::Trace,
            _ => {
                if src.is_empty() {
                    return Err(InvalidMethod { _p: () });
                }
                let mut i = 0;
                while i < src.len() {
                    let b = src[i];
                    let ok = matches!(b, b'a'..=b'z' | b'A'..=b'Z' | b'0'..=b'9' | b'!' | b'#' | b'$'
                        | b'%' | b'&' | b'\'' | b'*' | b'+' | b'-' | b'.' | b'^' | b'_' | b'`' | b'|' | b'~');
                    if !ok {
                        return Err(InvalidMethod { _p: () });
                    }
                    i += 1;
                }
                assert!(src.len() <= EXT_CAP, "http model: extension method longer than EXT_CAP");
                let mut b = [0u8; EXT_CAP];
                let mut i = 0;
                while i < EXT_CAP {
                    if i < src.len() {
                        b[i] = src[i];
                    }
                    i += 1;
                }
                Inner::Ext(b, src.len() as u8)
            }
        }))
    }

    /// MODEL-ONLY: an extension method without allocation-heavy validation.
    pub fn model_extension(tag: u8) -> Method {
        Method(Inner::Ext([b'X', b'0' + (tag % 10), 0, 0, 0, 0, 0, 0], 2))
    }

    pub fn as_str(&self) -> &str {
        match &self.0 {
            Inner::Options => "OPTIONS",
            Inner::Get => "GET",
            Inner::Post => "POST",
            Inner::Put => "PUT",
            Inner::Delete => "DELETE",
            Inner::Head => "HEAD",
            Inner::Trace => "TRACE",
            Inner::Connect => "CONNECT",
            Inner::Patch => "PATCH",
            Inner::Ext(v, n) => unsafe { std::str::from_utf8_unchecked(&v[..*n as usize]) },
        }
    }
    pub fn is_safe(&self) -> bool {
        matches!(self.0, Inner::Get | Inner::Head | Inner::Options | Inner::Trace)
    }
    pub fn is_idempotent(&self) -> bool {
        self.is_safe() || matches!(self.0, Inner::Put | Inner::Delete)
    }
}

impl Default for Method {
    fn default() -> Method {
        Method::GET
    }
}
impl AsRef<str> for Method {
    fn as_ref(&self) -> &str {
        self.as_str()
    }
}
impl<'a> PartialEq<&'a Method> for Method {
    fn eq(&self, o: &&'a Method) -> bool {
        self == *o
    }
}
impl<'a> PartialEq<Method> for &'a Method {
    fn eq(&self, o: &Method) -> bool {
        *self == o
    }
}
impl PartialEq<str> for Method {
    fn eq(&self, o: &str) -> bool {
        self.as_str() == o
    }
}
impl<'a> PartialEq<&'a str> for Method {
    fn eq(&self, o: &&'a str) -> bool {
        self.as_str() == *o
    }
}
impl std::fmt::Display for Method {
    fn fmt(&self, f: &mut std::fmt::Formatter<'_>) -> std::fmt::Result {
        f.write_str(self.as_str())
    }
}
impl<'a> From<&'a Method> for Method {
    fn from(t: &'a Method) -> Method {
        t.clone()
    }
}
impl<'a> TryFrom<&'a [u8]> for Method {
    type Error = InvalidMethod;
    fn try_from(t: &'a [u8]) -> Result<Self, Self::Error> {
        Method::from_bytes(t)
    }
}
impl<'a> TryFrom<&'a str> for Method {
    type Error = InvalidMethod;
    fn try_from(t: &'a str) -> Result<Self, Self::Error> {
        Method::from_bytes(t.as_bytes())
    }
}
impl std::str::FromStr for Method {
    type Err = InvalidMethod;
    fn from_str(t: &str) -> Result<Self, Self::Err> {
        Method::from_bytes(t.as_bytes())
    }
}
