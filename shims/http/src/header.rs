//! Model of `http::header`.

use std::convert::TryFrom;

const CUSTOM: u16 = 0xffff;
const CUSTOM_BASE: u16 = 0x1000;

/// A lower-case header name.
#[derive(Clone, Debug)]
pub struct HeaderName {
    idx: u16,
    s: &'static str,
}

#[derive(Debug)]
pub struct InvalidHeaderName {
    _p: (),
}
impl std::fmt::Display for InvalidHeaderName {
    fn fmt(&self, f: &mut std::fmt::Formatter<'_>) -> std::fmt::Result {
        f.write_str("invalid HTTP header name")
    }
}
impl std::error::Error for InvalidHeaderName {}

#[derive(Debug)]
pub struct InvalidHeaderValue {
    _p: (),
}
impl std::fmt::Display for InvalidHeaderValue {
    fn fmt(&self, f: &mut std::fmt::Formatter<'_>) -> std::fmt::Result {
        f.write_str("failed to parse header value")
    }
}
impl std::error::Error for InvalidHeaderValue {}

#[derive(Debug)]
pub struct ToStrError {
    _p: (),
}
impl std::fmt::Display for ToStrError {
    fn fmt(&self, f: &mut std::fmt::Formatter<'_>) -> std::fmt::Result {
        f.write_str("failed to convert header to a str")
    }
}
impl std::error::Error for ToStrError {}

macro_rules! standard_headers {
    ($( ($konst:ident, $name:expr, $idx:expr); )+) => {
        $( pub const $konst: HeaderName = HeaderName { idx: $idx, s: $name }; )+
        const STANDARD: &[(&str, u16)] = &[ $( ($name, $idx), )+ ];
    }
}

standard_headers! {
    (ACCEPT, "accept", 0);
    (ACCEPT_CHARSET, "accept-charset", 1);
    (ACCEPT_ENCODING, "accept-encoding", 2);
    (ACCEPT_LANGUAGE, "accept-language", 3);
    (ACCEPT_RANGES, "accept-ranges", 4);
    (AGE, "age", 5);
    (ALLOW, "allow", 6);
    (AUTHORIZATION, "authorization", 7);
    (CACHE_CONTROL, "cache-control", 8);
    (CONNECTION, "connection", 9);
    (CONTENT_DISPOSITION, "content-disposition", 10);
    (CONTENT_ENCODING, "content-encoding", 11);
    (CONTENT_LANGUAGE, "content-language", 12);
    (CONTENT_LENGTH, "content-length", 13);
    (CONTENT_LOCATION, "content-location", 14);
    (CONTENT_RANGE, "content-range", 15);
    (CONTENT_TYPE, "content-type", 16);
    (COOKIE, "cookie", 17);
    (DATE, "date", 18);
    (ETAG, "etag", 19);
    (EXPECT, "expect", 20);
    (EXPIRES, "expires", 21);
    (HOST, "host", 22);
    (IF_MATCH, "if-match", 23);
    (IF_MODIFIED_SINCE, "if-modified-since", 24);
    (IF_NONE_MATCH, "if-none-match", 25);
    (IF_RANGE, "if-range", 26);
    (IF_UNMODIFIED_SINCE, "if-unmodified-since", 27);
    (LAST_MODIFIED, "last-modified", 28);
    (LOCATION, "location", 29);
    (PRAGMA, "pragma", 30);
    (RANGE, "range", 31);
    (REFERER, "referer", 32);
    (RETRY_AFTER, "retry-after", 33);
    (SERVER, "server", 34);
    (SET_COOKIE, "set-cookie", 35);
    (TE, "te", 36);
    (TRAILER, "trailer", 37);
    (TRANSFER_ENCODING, "transfer-encoding", 38);
    (USER_AGENT, "user-agent", 39);
    (UPGRADE, "upgrade", 40);
    (VARY, "vary", 41);
    (VIA, "via", 42);
    (WARNING, "warning", 43);
    (WWW_AUTHENTICATE, "www-authenticate", 44);
}

// All scans over byte strings are written as two nested loops of at most 8 iterations each
// (64 bytes), so that harnesses can use a small global loop-unwinding bound. Longer strings
// trip the assertion below -- a model limit, reported, never silently truncated.
pub const MODEL_MAX_STR: usize = 64;

fn all_bytes<F: Fn(u8) -> bool>(b: &[u8], ok: F) -> bool {
    assert!(b.len() <= MODEL_MAX_STR, "http model: byte string longer than MODEL_MAX_STR");
    let mut o = 0;
    while o < 8 {
        let mut i = 0;
        while i < 8 {
            let k = o * 8 + i;
            if k < b.len() && !ok(b[k]) {
                return false;
            }
            i += 1;
        }
        if (o + 1) * 8 >= b.len() {
            break;
        }
        o += 1;
    }
    true
}

fn bytes_eq(a: &[u8], b: &[u8]) -> bool {
    if a.len() != b.len() {
        return false;
    }
    assert!(a.len() <= MODEL_MAX_STR, "http model: byte string longer than MODEL_MAX_STR");
    let mut o = 0;
    while o < 8 {
        let mut i = 0;
        while i < 8 {
            let k = o * 8 + i;
            if k < a.len() && a[k] != b[k] {
                return false;
            }
            i += 1;
        }
        if (o + 1) * 8 >= a.len() {
            break;
        }
        o += 1;
    }
    true
}

fn is_token_byte(b: u8) -> bool {
    matches!(b, b'a'..=b'z' | b'A'..=b'Z' | b'0'..=b'9' | b'!' | b'#' | b'$' | b'%' | b'&'
        | b'\'' | b'*' | b'+' | b'-' | b'.' | b'^' | b'_' | b'`' | b'|' | b'~')
}

impl HeaderName {
    /// Panics (like the real one) if `src` is not a valid lower-case name.
    pub fn from_static(src: &'static str) -> HeaderName {
        let b = src.as_bytes();
        assert!(!b.is_empty(), "invalid static header name");
        assert!(all_bytes(b, |c| is_token_byte(c) && !(c >= b'A' && c <= b'Z')), "invalid static header name");
        let mut idx = lookup(b);
        if idx == CUSTOM {
            idx = intern(src);
        }
        HeaderName { idx, s: src }
    }

    pub fn from_bytes(src: &[u8]) -> Result<HeaderName, InvalidHeaderName> {
        if src.is_empty() {
            return Err(InvalidHeaderName { _p: () });
        }
        let mut v = Vec::with_capacity(src.len());
        let mut i = 0;
        while i < src.len() {
            if !is_token_byte(src[i]) {
                return Err(InvalidHeaderName { _p: () });
            }
            v.push(src[i].to_ascii_lowercase());
            i += 1;
        }
        let idx = lookup(&v);
        if idx != CUSTOM {
            let mut k = 0;
            while k < STANDARD.len() {
                if STANDARD[k].1 == idx {
                    return Ok(HeaderName { idx, s: STANDARD[k].0 });
                }
                k += 1;
            }
        }
        let s: &'static str = Box::leak(String::from_utf8(v).unwrap().into_boxed_str());
        Ok(HeaderName { idx: intern(s), s })
    }

    pub fn from_lowercase(src: &[u8]) -> Result<HeaderName, InvalidHeaderName> {
        let mut i = 0;
        while i < src.len() {
            if src[i] >= b'A' && src[i] <= b'Z' {
                return Err(InvalidHeaderName { _p: () });
            }
            i += 1;
        }
        Self::from_bytes(src)
    }

    pub fn as_str(&self) -> &str {
        self.s
    }

    /// MODEL-ONLY: the integer that decides equality of names.
    pub fn model_idx(&self) -> u16 {
        self.idx
    }
}

fn lookup(b: &[u8]) -> u16 {
    let mut o = 0;
    while o < 6 {
        let mut i = 0;
        while i < 8 {
            let k = o * 8 + i;
            if k < STANDARD.len() && bytes_eq(STANDARD[k].0.as_bytes(), b) {
                return STANDARD[k].1;
            }
            i += 1;
        }
        o += 1;
    }
    CUSTOM
}

/// Equality is one integer comparison: standard names carry their table index and custom
/// names are interned when they are created (so no string scan happens on lookups, which
/// may run on symbolic map contents under the model checker).
impl PartialEq for HeaderName {
    fn eq(&self, o: &HeaderName) -> bool {
        self.idx == o.idx
    }
}

const INTERN_CAP: usize = 8;
static mut INTERNED: [&str; INTERN_CAP] = [""; INTERN_CAP];
static mut N_INTERNED: usize = 0;

/// Index for a non-standard (lower-case, valid) name: CUSTOM_BASE + position in the intern table.
/// The model is single-threaded (it only ever runs under the model checker or in the
/// sequential conformance tests).
#[allow(static_mut_refs)]
fn intern(s: &'static str) -> u16 {
    unsafe {
        let mut i = 0;
        while i < INTERN_CAP {
            if i < N_INTERNED && bytes_eq(INTERNED[i].as_bytes(), s.as_bytes()) {
                return CUSTOM_BASE + i as u16;
            }
            i += 1;
        }
        assert!(N_INTERNED < INTERN_CAP, "http model: more than INTERN_CAP distinct custom header names");
        INTERNED[N_INTERNED] = s;
        N_INTERNED += 1;
        CUSTOM_BASE + (N_INTERNED - 1) as u16
    }
}
impl Eq for HeaderName {}
impl<'a> PartialEq<&'a HeaderName> for HeaderName {
    fn eq(&self, o: &&'a HeaderName) -> bool {
        *self == **o
    }
}
impl<'a> PartialEq<HeaderName> for &'a HeaderName {
    fn eq(&self, o: &HeaderName) -> bool {
        **self == *o
    }
}
impl PartialEq<str> for HeaderName {
    fn eq(&self, o: &str) -> bool {
        self.s.eq_ignore_ascii_case(o)
    }
}
impl<'a> PartialEq<&'a str> for HeaderName {
    fn eq(&self, o: &&'a str) -> bool {
        self.s.eq_ignore_ascii_case(o)
    }
}
impl std::hash::Hash for HeaderName {
    fn hash<H: std::hash::Hasher>(&self, h: &mut H) {
        self.s.hash(h)
    }
}
impl std::fmt::Display for HeaderName {
    fn fmt(&self, f: &mut std::fmt::Formatter<'_>) -> std::fmt::Result {
        f.write_str(self.s)
    }
}
impl AsRef<str> for HeaderName {
    fn as_ref(&self) -> &str {
        self.s
    }
}
impl AsRef<[u8]> for HeaderName {
    fn as_ref(&self) -> &[u8] {
        self.s.as_bytes()
    }
}
impl std::str::FromStr for HeaderName {
    type Err = InvalidHeaderName;
    fn from_str(s: &str) -> Result<HeaderName, InvalidHeaderName> {
        HeaderName::from_bytes(s.as_bytes())
    }
}
impl<'a> From<&'a HeaderName> for HeaderName {
    fn from(s: &'a HeaderName) -> HeaderName {
        s.clone()
    }
}
impl<'a> TryFrom<&'a str> for HeaderName {
    type Error = InvalidHeaderName;
    fn try_from(s: &'a str) -> Result<Self, Self::Error> {
        HeaderName::from_bytes(s.as_bytes())
    }
}
impl<'a> TryFrom<&'a String> for HeaderName {
    type Error = InvalidHeaderName;
    fn try_from(s: &'a String) -> Result<Self, Self::Error> {
        HeaderName::from_bytes(s.as_bytes())
    }
}
impl TryFrom<String> for HeaderName {
    type Error = InvalidHeaderName;
    fn try_from(s: String) -> Result<Self, Self::Error> {
        HeaderName::from_bytes(s.as_bytes())
    }
}
impl<'a> TryFrom<&'a [u8]> for HeaderName {
    type Error = InvalidHeaderName;
    fn try_from(s: &'a [u8]) -> Result<Self, Self::Error> {
        HeaderName::from_bytes(s)
    }
}

// ---------------------------------------------------------------------------------------

#[derive(Clone, Debug)]
enum Repr {
    Static(&'static [u8]),
    Owned(Vec<u8>),
    /// MODEL-ONLY: short values kept inline (stack), for harnesses with symbolic bytes.
    Inline([u8; INLINE_CAP], u8),
}
pub const INLINE_CAP: usize = 24;

/// A header value: any bytes except CTLs other than HTAB.
#[derive(Clone, Debug)]
pub struct HeaderValue {
    repr: Repr,
    sensitive: bool,
}

fn is_valid_value_byte(b: u8) -> bool {
    b >= 32 && b != 127 || b == b'\t'
}
fn is_visible_ascii(b: u8) -> bool {
    b >= 32 && b < 127 || b == b'\t'
}

impl HeaderValue {
    /// Panics if the string contains a byte the real crate rejects (it requires visible ASCII).
    pub fn from_static(src: &'static str) -> HeaderValue {
        let b = src.as_bytes();
        assert!(all_bytes(b, is_visible_ascii), "invalid header value");
        HeaderValue { repr: Repr::Static(b), sensitive: false }
    }

    pub fn from_str(src: &str) -> Result<HeaderValue, InvalidHeaderValue> {
        let b = src.as_bytes();
        if !all_bytes(b, is_visible_ascii) {
            return Err(InvalidHeaderValue { _p: () });
        }
        Ok(HeaderValue { repr: Repr::Owned(b.to_vec()), sensitive: false })
    }

    pub fn from_bytes(src: &[u8]) -> Result<HeaderValue, InvalidHeaderValue> {
        if !all_bytes(src, is_valid_value_byte) {
            return Err(InvalidHeaderValue { _p: () });
        }
        Ok(HeaderValue { repr: Repr::Owned(src.to_vec()), sensitive: false })
    }

    pub fn from_maybe_shared<T: AsRef<[u8]> + 'static>(src: T) -> Result<HeaderValue, InvalidHeaderValue> {
        HeaderValue::from_bytes(src.as_ref())
    }

    /// # Safety
    /// Caller promises the bytes are valid (as in the real crate).
    pub unsafe fn from_maybe_shared_unchecked<T: AsRef<[u8]> + 'static>(src: T) -> HeaderValue {
        HeaderValue { repr: Repr::Owned(src.as_ref().to_vec()), sensitive: false }
    }

    /// MODEL-ONLY constructor used by harnesses: takes ownership of a byte vector without a scan.
    pub fn model_from_vec(v: Vec<u8>) -> HeaderValue {
        HeaderValue { repr: Repr::Owned(v), sensitive: false }
    }
    /// MODEL-ONLY constructor used by harnesses: static bytes (may be non-ASCII) without a scan.
    pub fn model_from_static_bytes(v: &'static [u8]) -> HeaderValue {
        HeaderValue { repr: Repr::Static(v), sensitive: false }
    }

    /// MODEL-ONLY constructor used by harnesses: up to INLINE_CAP bytes, no heap.
    pub fn model_from_inline(b: &[u8]) -> HeaderValue {
        assert!(b.len() <= INLINE_CAP);
        let mut buf = [0u8; INLINE_CAP];
        let mut o = 0;
        while o < INLINE_CAP / 8 {
            let mut i = 0;
            while i < 8 {
                let k = o * 8 + i;
                if k < b.len() {
                    buf[k] = b[k];
                }
                i += 1;
            }
            o += 1;
        }
        HeaderValue { repr: Repr::Inline(buf, b.len() as u8), sensitive: false }
    }

    pub fn as_bytes(&self) -> &[u8] {
        match &self.repr {
            Repr::Static(s) => s,
            Repr::Owned(v) => &v[..],
            Repr::Inline(b, n) => &b[..*n as usize],
        }
    }

    pub fn to_str(&self) -> Result<&str, ToStrError> {
        let b = self.as_bytes();
        if !all_bytes(b, is_visible_ascii) {
            return Err(ToStrError { _p: () });
        }
        Ok(unsafe { std::str::from_utf8_unchecked(b) })
    }

    pub fn len(&self) -> usize {
        self.as_bytes().len()
    }
    pub fn is_empty(&self) -> bool {
        self.as_bytes().is_empty()
    }
    pub fn set_sensitive(&mut self, v: bool) {
        self.sensitive = v
    }
    pub fn is_sensitive(&self) -> bool {
        self.sensitive
    }
}

impl AsRef<[u8]> for HeaderValue {
    fn as_ref(&self) -> &[u8] {
        self.as_bytes()
    }
}
impl PartialEq for HeaderValue {
    fn eq(&self, o: &HeaderValue) -> bool {
        bytes_eq(self.as_bytes(), o.as_bytes())
    }
}
impl Eq for HeaderValue {}
impl PartialEq<str> for HeaderValue {
    fn eq(&self, o: &str) -> bool {
        bytes_eq(self.as_bytes(), o.as_bytes())
    }
}
impl PartialEq<[u8]> for HeaderValue {
    fn eq(&self, o: &[u8]) -> bool {
        bytes_eq(self.as_bytes(), o)
    }
}
impl<'a> PartialEq<&'a str> for HeaderValue {
    fn eq(&self, o: &&'a str) -> bool {
        bytes_eq(self.as_bytes(), o.as_bytes())
    }
}
impl<'a> PartialEq<&'a [u8]> for HeaderValue {
    fn eq(&self, o: &&'a [u8]) -> bool {
        bytes_eq(self.as_bytes(), o)
    }
}
impl PartialEq<String> for HeaderValue {
    fn eq(&self, o: &String) -> bool {
        bytes_eq(self.as_bytes(), o.as_bytes())
    }
}
impl PartialEq<HeaderValue> for str {
    fn eq(&self, o: &HeaderValue) -> bool {
        bytes_eq(self.as_bytes(), o.as_bytes())
    }
}
impl PartialEq<HeaderValue> for [u8] {
    fn eq(&self, o: &HeaderValue) -> bool {
        bytes_eq(self, o.as_bytes())
    }
}
impl<'a> PartialEq<HeaderValue> for &'a str {
    fn eq(&self, o: &HeaderValue) -> bool {
        bytes_eq(self.as_bytes(), o.as_bytes())
    }
}
impl<'a> PartialEq<HeaderValue> for &'a HeaderValue {
    fn eq(&self, o: &HeaderValue) -> bool {
        bytes_eq(self.as_bytes(), o.as_bytes())
    }
}
impl std::str::FromStr for HeaderValue {
    type Err = InvalidHeaderValue;
    fn from_str(s: &str) -> Result<HeaderValue, InvalidHeaderValue> {
        HeaderValue::from_str(s)
    }
}
impl<'a> From<&'a HeaderValue> for HeaderValue {
    fn from(t: &'a HeaderValue) -> HeaderValue {
        t.clone()
    }
}
impl From<HeaderName> for HeaderValue {
    fn from(n: HeaderName) -> HeaderValue {
        HeaderValue { repr: Repr::Static(n.s.as_bytes()), sensitive: false }
    }
}
impl<'a> TryFrom<&'a str> for HeaderValue {
    type Error = InvalidHeaderValue;
    fn try_from(s: &'a str) -> Result<Self, Self::Error> {
        HeaderValue::from_str(s)
    }
}
impl<'a> TryFrom<&'a String> for HeaderValue {
    type Error = InvalidHeaderValue;
    fn try_from(s: &'a String) -> Result<Self, Self::Error> {
        HeaderValue::from_bytes(s.as_bytes())
    }
}
impl<'a> TryFrom<&'a [u8]> for HeaderValue {
    type Error = InvalidHeaderValue;
    fn try_from(s: &'a [u8]) -> Result<Self, Self::Error> {
        HeaderValue::from_bytes(s)
    }
}
impl TryFrom<String> for HeaderValue {
    type Error = InvalidHeaderValue;
    fn try_from(s: String) -> Result<Self, Self::Error> {
        let v = s.into_bytes();
        if !all_bytes(&v[..], is_valid_value_byte) {
            return Err(InvalidHeaderValue { _p: () });
        }
        Ok(HeaderValue { repr: Repr::Owned(v), sensitive: false })
    }
}
impl TryFrom<Vec<u8>> for HeaderValue {
    type Error = InvalidHeaderValue;
    fn try_from(v: Vec<u8>) -> Result<Self, Self::Error> {
        if !all_bytes(&v[..], is_valid_value_byte) {
            return Err(InvalidHeaderValue { _p: () });
        }
        Ok(HeaderValue { repr: Repr::Owned(v), sensitive: false })
    }
}
macro_rules! from_int {
    ($($t:ty)*) => {$(
        impl From<$t> for HeaderValue {
            fn from(n: $t) -> HeaderValue {
                HeaderValue { repr: Repr::Owned(n.to_string().into_bytes()), sensitive: false }
            }
        }
    )*}
}
from_int!(u16 i16 u32 i32 u64 i64 usize isize);

// ---------------------------------------------------------------------------------------

/// Things usable as a lookup key.
pub trait AsHeaderName: sealed::Sealed {}
mod sealed {
    use super::HeaderName;
    pub trait Sealed {
        fn matches(&self, n: &HeaderName) -> bool;
    }
    impl Sealed for HeaderName {
        fn matches(&self, n: &HeaderName) -> bool {
            self == n
        }
    }
    impl<'a> Sealed for &'a HeaderName {
        fn matches(&self, n: &HeaderName) -> bool {
            *self == n
        }
    }
    impl<'a> Sealed for &'a str {
        fn matches(&self, n: &HeaderName) -> bool {
            n.as_str().eq_ignore_ascii_case(self)
        }
    }
    impl Sealed for String {
        fn matches(&self, n: &HeaderName) -> bool {
            n.as_str().eq_ignore_ascii_case(self)
        }
    }
    impl<'a> Sealed for &'a String {
        fn matches(&self, n: &HeaderName) -> bool {
            n.as_str().eq_ignore_ascii_case(self)
        }
    }
}
impl AsHeaderName for HeaderName {}
impl<'a> AsHeaderName for &'a HeaderName {}
impl<'a> AsHeaderName for &'a str {}
impl AsHeaderName for String {}
impl<'a> AsHeaderName for &'a String {}

/// Things usable as an insertion key.
pub trait IntoHeaderName: into_sealed::Sealed {}
mod into_sealed {
    use super::HeaderName;
    pub trait Sealed {
        fn into_name(self) -> HeaderName;
    }
    impl Sealed for HeaderName {
        fn into_name(self) -> HeaderName {
            self
        }
    }
    impl<'a> Sealed for &'a HeaderName {
        fn into_name(self) -> HeaderName {
            self.clone()
        }
    }
    impl Sealed for &'static str {
        fn into_name(self) -> HeaderName {
            HeaderName::from_static(self)
        }
    }
}
impl IntoHeaderName for HeaderName {}
impl<'a> IntoHeaderName for &'a HeaderName {}
impl IntoHeaderName for &'static str {}

/// Insertion-ordered multimap. Values of one name are kept adjacent (as the real map iterates).
///
/// Storage is an INLINE fixed-capacity array (no heap): bounded model checkers propagate
/// constants through stack objects but not through heap objects, and header lookups on
/// concrete request texts must stay concrete. Exceeding `MODEL_CAP` entries panics with a
/// message that names the model (the real map holds 32768).
pub const MODEL_CAP: usize = 8;

#[derive(Clone, Debug)]
pub struct HeaderMap<T = HeaderValue> {
    entries: [Option<(HeaderName, T)>; MODEL_CAP],
    len: usize,
}

impl HeaderMap<HeaderValue> {
    pub fn new() -> Self {
        HeaderMap { entries: [const { None }; MODEL_CAP], len: 0 }
    }
}

impl<T> Default for HeaderMap<T> {
    fn default() -> Self {
        HeaderMap { entries: [const { None }; MODEL_CAP], len: 0 }
    }
}

impl<T> HeaderMap<T> {
    pub fn with_capacity(_n: usize) -> Self {
        HeaderMap { entries: [const { None }; MODEL_CAP], len: 0 }
    }
    pub fn len(&self) -> usize {
        self.len
    }
    fn name_at(&self, i: usize) -> &HeaderName {
        match &self.entries[i] {
            Some((k, _)) => k,
            None => unreachable!(),
        }
    }
    fn val_at(&self, i: usize) -> &T {
        match &self.entries[i] {
            Some((_, v)) => v,
            None => unreachable!(),
        }
    }
    pub fn keys_len(&self) -> usize {
        let mut n = 0;
        let mut i = 0;
        while i < MODEL_CAP {
            if i < self.len && (i == 0 || self.name_at(i - 1) != self.name_at(i)) {
                n += 1;
            }
            i += 1;
        }
        n
    }
    pub fn is_empty(&self) -> bool {
        self.len == 0
    }
    pub fn clear(&mut self) {
        let mut i = 0;
        while i < MODEL_CAP {
            self.entries[i] = None;
            i += 1;
        }
        self.len = 0;
    }
    pub fn capacity(&self) -> usize {
        MODEL_CAP
    }
    pub fn reserve(&mut self, _n: usize) {}

    fn find<K: AsHeaderName>(&self, key: &K) -> Option<usize> {
        let mut i = 0;
        while i < MODEL_CAP {
            if i < self.len {
                if let Some((k, _)) = &self.entries[i] {
                    if sealed::Sealed::matches(key, k) {
                        return Some(i);
                    }
                }
            }
            i += 1;
        }
        None
    }

    pub fn get<K: AsHeaderName>(&self, key: K) -> Option<&T> {
        match self.find(&key) {
            Some(i) => Some(self.val_at(i)),
            None => None,
        }
    }
    pub fn get_mut<K: AsHeaderName>(&mut self, key: K) -> Option<&mut T> {
        match self.find(&key) {
            Some(i) => match &mut self.entries[i] {
                Some((_, v)) => Some(v),
                None => None,
            },
            None => None,
        }
    }
    pub fn contains_key<K: AsHeaderName>(&self, key: K) -> bool {
        self.find(&key).is_some()
    }
    pub fn get_all<K: AsHeaderName>(&self, key: K) -> GetAll<'_, T> {
        let start = self.find(&key);
        GetAll { map: self, start }
    }

    /// Inserts at position `at`, shifting later entries.
    fn insert_at(&mut self, at: usize, e: (HeaderName, T)) {
        assert!(self.len < MODEL_CAP, "http model: HeaderMap holds at most MODEL_CAP entries");
        let mut i = MODEL_CAP - 1;
        while i > 0 {
            if i > at && i <= self.len {
                self.entries[i] = self.entries[i - 1].take();
            }
            i -= 1;
        }
        self.entries[at] = Some(e);
        self.len += 1;
    }
    fn remove_at(&mut self, at: usize) -> (HeaderName, T) {
        let e = self.entries[at].take().unwrap();
        let mut i = 0;
        while i + 1 < MODEL_CAP {
            if i >= at && i + 1 < self.len {
                self.entries[i] = self.entries[i + 1].take();
            }
            i += 1;
        }
        self.len -= 1;
        e
    }
    /// one past the last value of the name whose first value is at `i`
    fn group_end(&self, i: usize) -> usize {
        let mut j = i + 1;
        let mut k = 0;
        while k < MODEL_CAP {
            if j < self.len && self.name_at(j) == self.name_at(i) {
                j += 1;
            }
            k += 1;
        }
        j
    }

    /// Replaces all values of the name; returns the first previous value.
    pub fn insert<K: IntoHeaderName>(&mut self, key: K, val: T) -> Option<T> {
        let name = into_sealed::Sealed::into_name(key);
        match self.find(&&name) {
            None => {
                let at = self.len;
                self.insert_at(at, (name, val));
                None
            }
            Some(i) => {
                let end = self.group_end(i);
                let mut extra = end - (i + 1);
                let mut g = 0;
                while g < MODEL_CAP {
                    if extra > 0 {
                        let _ = self.remove_at(i + 1);
                        extra -= 1;
                    }
                    g += 1;
                }
                match &mut self.entries[i] {
                    Some((_, v)) => Some(std::mem::replace(v, val)),
                    None => None,
                }
            }
        }
    }

    /// Adds a value; returns true if the name was already present.
    pub fn append<K: IntoHeaderName>(&mut self, key: K, val: T) -> bool {
        let name = into_sealed::Sealed::into_name(key);
        match self.find(&&name) {
            None => {
                let at = self.len;
                self.insert_at(at, (name, val));
                false
            }
            Some(i) => {
                let j = self.group_end(i);
                self.insert_at(j, (name, val));
                true
            }
        }
    }

    pub fn remove<K: AsHeaderName>(&mut self, key: K) -> Option<T> {
        match self.find(&key) {
            None => None,
            Some(i) => {
                let end = self.group_end(i);
                let mut extra = end - (i + 1);
                let mut g = 0;
                while g < MODEL_CAP {
                    if extra > 0 {
                        let _ = self.remove_at(i + 1);
                        extra -= 1;
                    }
                    g += 1;
                }
                let (_, first) = self.remove_at(i);
                Some(first)
            }
        }
    }

    pub fn iter(&self) -> Iter<'_, T> {
        Iter { map: self, i: 0 }
    }
    /// MODEL-ONLY: direct access to slot `i` (harnesses snapshot a map in one pass).
    pub fn model_slot(&self, i: usize) -> Option<(&HeaderName, &T)> {
        if i < self.len {
            match &self.entries[i] {
                Some((k, v)) => Some((k, v)),
                None => None,
            }
        } else {
            None
        }
    }
    pub fn keys(&self) -> Keys<'_, T> {
        Keys { map: self, i: 0 }
    }
    pub fn values(&self) -> Values<'_, T> {
        Values { map: self, i: 0 }
    }
}

pub struct Iter<'a, T> {
    map: &'a HeaderMap<T>,
    i: usize,
}
impl<'a, T> Iterator for Iter<'a, T> {
    type Item = (&'a HeaderName, &'a T);
    fn next(&mut self) -> Option<Self::Item> {
        if self.i < self.map.len {
            let i = self.i;
            self.i += 1;
            match &self.map.entries[i] {
                Some((k, v)) => Some((k, v)),
                None => None,
            }
        } else {
            None
        }
    }
    fn size_hint(&self) -> (usize, Option<usize>) {
        let n = self.map.len - self.i;
        (n, Some(n))
    }
}
pub struct Values<'a, T> {
    map: &'a HeaderMap<T>,
    i: usize,
}
impl<'a, T> Iterator for Values<'a, T> {
    type Item = &'a T;
    fn next(&mut self) -> Option<Self::Item> {
        if self.i < self.map.len {
            let i = self.i;
            self.i += 1;
            Some(self.map.val_at(i))
        } else {
            None
        }
    }
}
pub struct Keys<'a, T> {
    map: &'a HeaderMap<T>,
    i: usize,
}
impl<'a, T> Iterator for Keys<'a, T> {
    type Item = &'a HeaderName;
    fn next(&mut self) -> Option<Self::Item> {
        while self.i < self.map.len {
            let i = self.i;
            self.i += 1;
            if i == 0 || self.map.name_at(i - 1) != self.map.name_at(i) {
                return Some(self.map.name_at(i));
            }
        }
        None
    }
}
pub struct GetAll<'a, T> {
    map: &'a HeaderMap<T>,
    start: Option<usize>,
}
impl<'a, T> GetAll<'a, T> {
    pub fn iter(&self) -> ValueIter<'a, T> {
        ValueIter { map: self.map, name_at: self.start, i: self.start.unwrap_or(0) }
    }
}
impl<'a, T> IntoIterator for GetAll<'a, T> {
    type Item = &'a T;
    type IntoIter = ValueIter<'a, T>;
    fn into_iter(self) -> ValueIter<'a, T> {
        self.iter()
    }
}
impl<'a, 'b: 'a, T> IntoIterator for &'b GetAll<'a, T> {
    type Item = &'a T;
    type IntoIter = ValueIter<'a, T>;
    fn into_iter(self) -> ValueIter<'a, T> {
        self.iter()
    }
}
pub struct ValueIter<'a, T> {
    map: &'a HeaderMap<T>,
    name_at: Option<usize>,
    i: usize,
}
impl<'a, T> Iterator for ValueIter<'a, T> {
    type Item = &'a T;
    fn next(&mut self) -> Option<&'a T> {
        let first = self.name_at?;
        if self.i < self.map.len && self.map.name_at(self.i) == self.map.name_at(first) {
            let v = self.map.val_at(self.i);
            self.i += 1;
            Some(v)
        } else {
            None
        }
    }
}

impl<'a, T> IntoIterator for &'a HeaderMap<T> {
    type Item = (&'a HeaderName, &'a T);
    type IntoIter = Iter<'a, T>;
    fn into_iter(self) -> Iter<'a, T> {
        self.iter()
    }
}

/// Owning iterator: like the real one, yields `Some(name)` only for the first value of a name.
pub struct IntoIter<T> {
    map: HeaderMap<T>,
    i: usize,
    last: Option<HeaderName>,
}
impl<T> Iterator for IntoIter<T> {
    type Item = (Option<HeaderName>, T);
    fn next(&mut self) -> Option<Self::Item> {
        if self.i >= self.map.len {
            return None;
        }
        let i = self.i;
        self.i += 1;
        match self.map.entries[i].take() {
            None => None,
            Some((k, v)) => {
                let same = match &self.last {
                    Some(l) => *l == k,
                    None => false,
                };
                if same {
                    Some((None, v))
                } else {
                    self.last = Some(k.clone());
                    Some((Some(k), v))
                }
            }
        }
    }
}
impl<T> IntoIterator for HeaderMap<T> {
    type Item = (Option<HeaderName>, T);
    type IntoIter = IntoIter<T>;
    fn into_iter(self) -> IntoIter<T> {
        IntoIter { map: self, i: 0, last: None }
    }
}

/// `extend` with (name, value) pairs behaves like repeated `append` (as the real crate).
impl<T> Extend<(HeaderName, T)> for HeaderMap<T> {
    fn extend<I: IntoIterator<Item = (HeaderName, T)>>(&mut self, iter: I) {
        for (k, v) in iter {
            self.append(k, v);
        }
    }
}
/// `extend` with (Option<name>, value): `None` appends to the previous name (as the real crate).
impl<T> Extend<(Option<HeaderName>, T)> for HeaderMap<T> {
    fn extend<I: IntoIterator<Item = (Option<HeaderName>, T)>>(&mut self, iter: I) {
        let mut cur: Option<HeaderName> = None;
        for (k, v) in iter {
            match k {
                Some(k) => {
                    self.insert(k.clone(), v);
                    cur = Some(k);
                }
                None => {
                    let k = cur.clone().expect("expected a header name");
                    self.append(k, v);
                }
            }
        }
    }
}
impl<T> std::iter::FromIterator<(HeaderName, T)> for HeaderMap<T> {
    fn from_iter<I: IntoIterator<Item = (HeaderName, T)>>(iter: I) -> Self {
        let mut m = HeaderMap::default();
        m.extend(iter);
        m
    }
}
impl<T: PartialEq> PartialEq for HeaderMap<T> {
    fn eq(&self, o: &HeaderMap<T>) -> bool {
        if self.len != o.len {
            return false;
        }
        // same values per name, order of values within a name matters
        let mut i = 0;
        while i < self.len {
            let name = self.name_at(i);
            let a: Vec<&T> = self.iter().filter(|e| e.0 == name).map(|e| e.1).collect();
            let b: Vec<&T> = o.iter().filter(|e| e.0 == name).map(|e| e.1).collect();
            if a != b {
                return false;
            }
            i += 1;
        }
        true
    }
}
impl<K: AsHeaderName, T> std::ops::Index<K> for HeaderMap<T> {
    type Output = T;
    fn index(&self, k: K) -> &T {
        self.get(k).expect("no entry found for key")
    }
}
