//! Model of `http::header`.

use std::convert::TryFrom;

const CUSTOM: u16 = 0xffff;
const CUSTOM_BASE: u16 = 0x1000;

/// A lower-case header name.
#[derive(Clone, Debug)]
pub struct HeaderName {
    idx: u16,
    s: &'static str,
}

#[derive(Debug)]
pub struct InvalidHeaderName {
    _p: (),
}
impl std::fmt::Display for InvalidHeaderName {
    fn fmt(&self, f: &mut std::fmt::Formatter<'_>) -> std::fmt::Result {
        f.write_str("invalid HTTP header name")
    }
}
impl std::error::Error for InvalidHeaderName {}

#[derive(Debug)]
pub struct InvalidHeaderValue {
    _p: (),
}
impl std::fmt::Display for InvalidHeaderValue {
    fn fmt(&self, f: &mut std::fmt::Formatter<'_>) -> std::fmt::Result {
        f.write_str("failed to parse header value")
    }
}
impl std::error::Error for InvalidHeaderValue {}

#[derive(Debug)]
pub struct ToStrError {
    _p: (),
}
impl std::fmt::Display for ToStrError {
    fn fmt(&self, f: &mut std::fmt::Formatter<'_>) -> std::fmt::Result {
        f.write_str("failed to convert header to a str")
    }
}
impl std::error::Error for ToStrError {}

macro_rules! standard_headers {
    ($( ($konst:ident, $name:expr, $idx:expr); )+) => {
        $( pub const $konst: HeaderName = HeaderName { idx: $idx, s: $name }; )+
        const STANDARD: &[(&str, u16)] = &[ $( ($name, $idx), )+ ];
    }
}

standard_headers! {
    (ACCEPT, "accept", 0);
    (ACCEPT_CHARSET, "accept-charset", 1);
    (ACCEPT_ENCODING, "accept-encoding", 2);
    (ACCEPT_LANGUAGE, "accept-language", 3);
    (ACCEPT_RANGES, "accept-ranges", 4);
    (AGE, "age", 5);
    (ALLOW, "allow", 6);
    (AUTHORIZATION, "authorization", 7);
    (CACHE_CONTROL, "cache-control", 8);
    (CONNECTION, "connection", 9);
    (CONTENT_DISPOSITION, "content-disposition", 10);
    (CONTENT_ENCODING, "content-encoding", 11);
    (CONTENT_LANGUAGE, "content-language", 12);
    (CONTENT_LENGTH, "content-length", 13);
    (CONTENT_LOCATION, "content-location", 14);
    (CONTENT_RANGE, "content-range", 15);
    (CONTENT_TYPE, "content-type", 16);
    (COOKIE, "cookie", 17);
    (DATE, "date", 18);
    (ETAG, "etag", 19);
    (EXPECT, "expect", 20);
    (EXPIRES, "expires", 21);
    (HOST, "host", 22);
    (IF_MATCH, "if-match", 23);
    (IF_MODIFIED_SINCE, "if-modified-since", 24);
    (IF_NONE_MATCH, "if-none-match", 25);
    (IF_RANGE, "if-range", 26);
    (IF_UNMODIFIED_SINCE, "if-unmodified-since", 27);
    (LAST_MODIFIED, "last-modified", 28);
    (LOCATION, "location", 29);
    (PRAGMA, "pragma", 30);
    (RANGE, "range", 31);
    (REFERER, "referer", 32);
    (RETRY_AFTER, "retry-after", 33);
    (SERVER, "server", 34);
    (SET_COOKIE, "set-cookie", 35);
    (TE, "te", 36);
    (TRAILER, "trailer", 37);
    (TRANSFER_ENCODING, "transfer-encoding", 38);
    (USER_AGENT, "user-agent", 39);
    (UPGRADE, "upgrade", 40);
    (VARY, "vary", 41);
    (VIA, "via", 42);
    (WARNING, "warning", 43);
    (WWW_AUTHENTICATE, "www-authenticate", 44);
}

// All scans over byte strings are written as two nested loops of at most 8 iterations each
// (64 bytes), so that harnesses can use a small global loop-unwinding bound. Longer strings
// trip the assertion below -- a model limit, reported, never silently truncated.
pub const MODEL_MAX_STR: usize = 64;

fn all_bytes<F: Fn(u8) -> bool>(b: &[u8], ok: F) -> bool {
    assert!(b.len() <= MODEL_MAX_STR, "http model: byte string longer than MODEL_MAX_STR");
    let mut o = 0;
    while o < 8 {
        let mut i = 0;
        while i < 8 {
            let k = o * 8 + i;
            if k < b.len() && !ok(b[k]) {
                return false;
            }
            i += 1;
        }
        if (o + 1) * 8 >= b.len() {
            break;
        }
        o += 1;
    }
    true
}

fn bytes_eq(a: &[u8], b: &[u8]) -> bool {
    if a.len() != b.len() {
        return false;
    }
    assert!(a.len() <= MODEL_MAX_STR, "http model: byte string longer than MODEL_MAX_STR");
    let mut o = 0;
    while o < 8 {
        let mut i = 0;
        while i < 8 {
            let k = o * 8 + i;
            if k < a.len() && a[k] != b[k] {
                return false;
            }
            i += 1;
        }
        if (o + 1) * 8 >= a.len() {
            break;
        }
        o += 1;
    }
    true
}

fn is_token_byte(b: u8) -> bool {
    matches!(b, b'a'..=b'z' | b'A'..=b'Z' | b'0'..=b'9' | b'!' | b'#' | b'$' | b'%' | b'&'
        | b'\'' | b'*' | b'+' | b'-' | b'.' | b'^' | b'_' | b'`' | b'|' | b'~')
}

impl HeaderName {
    /// Panics (like the real one) if `src` is not a valid lower-case name.
    pub fn from_static(src: &'static str) -> HeaderName {
        let b = src.as_bytes();
        assert!(!b.is_empty(), "invalid static header name");
        assert!(all_bytes(b, |c| is_token_byte(c) && !(c >= b'A' && c <= b'Z')), "invalid static header name");
        let mut idx = lookup(b);
        if idx == CUSTOM {
            idx = intern(src);
        }
        HeaderName { idx, s: src }
    }

    pub fn from_bytes(src: &[u8]) -> Result<HeaderName, InvalidHeaderName> {
        if src.is_empty() {
            return Err(InvalidHeaderName { _p: () });
        }
        let mut v = Vec::with_capacity(src.len());
        let mut i = 0;
        while i < src.len() {
            if !is_token_byte(src[i]) {
                return Err(InvalidHeaderName { _p: () });
            }
            v.push(src[i].to_ascii_lowercase());
            i += 1;
        }
        let idx = lookup(&v);
        if idx != CUSTOM {
            let mut k = 0;
            while k < STANDARD.len() {
                if STANDARD[k].1 == idx {
                    return Ok(HeaderName { idx, s: STANDARD[k].0 });
                }
                k += 1;
            }
        }
        let s: &'static str = Box::leak(String::from_utf8(v).unwrap().into_boxed_str());
        Ok(HeaderName { idx: intern(s), s })
    }

    pub fn from_lowercase(src: &[u8]) -> Result<HeaderName, InvalidHeaderName> {
        let mut i = 0;
        while i < src.len() {
            if src[i] >= b'A' && src[i] <= b'Z' {
                return Err(InvalidHeaderName { _p: () });
            }
            i += 1;
        }
        Self::from_bytes(src)
    }

    pub fn as_str(&self) -> &str {
        self.s
    }

    /// MODEL-ONLY: the integer that decides equality of names.
    pub fn model_idx(&self) -> u16 {
        self.idx
    }
}

fn lookup(b: &[u8]) -> u16 {
    let mut o = 0;
    while o < 6 {
        let mut i = 0;
        while i < 8 {
            let k = o * 8 + i;
            if k < STANDARD.len() && bytes_eq(STANDARD[k].0.as_bytes(), b) {
                return STANDARD[k].1;
            }
            i += 1;
        }
        o += 1;
    }
    CUSTOM
}

/// Equality is one integer comparison: standard names carry their table index and custom
/// names are interned when they are created (so no string scan happens on lookups, which
/// may run on symbolic map contents under the model checker).
impl PartialEq for HeaderName {
    fn eq(&self, o: &HeaderName) -> bool {
        self.idx == o.idx
    }
}

const INTERN_CAP: usize = 8;
static mut INTERNED: [&str; INTERN_CAP] = [""; INTERN_CAP];
static mut N_INTERNED: usize = 0;

/// Index for a non-standard (lower-case, valid) name: CUSTOM_BASE + position in the intern table.
/// The model is single-threaded (it only ever runs under the model checker or in the
/// sequential conformance tests).
#[allow(static_mut_refs)]
fn intern(s: &'static str) -> u16 {
    unsafe {
        let mut i = 0;
        while i < INTERN_CAP {
            if i < N_INTERNED && bytes_eq(INTERNED[i].as_bytes(), s.as_bytes()) {
                return CUSTOM_BASE + i as u16;
            }
            i += 1;
        }
        assert!(N_INTERNED < INTERN_CAP, "http model: more than INTERN_CAP distinct custom header names");
        INTERNED[N_INTERNED] = s;
        N_INTERNED += 1;
        CUSTOM_BASE + (N_INTERNED - 1) as u16
    }
}
impl Eq for HeaderName {}
impl<'a> PartialEq<&'a HeaderName> for HeaderName {
    fn eq(&self, o: &&'a HeaderName) -> bool {
        *self == **o
    }
}
impl<'a> PartialEq<HeaderName> for &'a HeaderName {
    fn eq(&self, o: &HeaderName) -> bool {
        **self == *o
    }
}
impl PartialEq<str> for HeaderName {
    fn eq(&self, o: &str) -> bool {
        self.s.eq_ignore_ascii_case(o)
    }
}
impl<'a> PartialEq<&'a str> for HeaderName {
    fn eq(&self, o: &&'a str) -> bool {
        self.s.eq_ignore_ascii_case(o)
    }
}
impl std::hash::Hash for HeaderName {
    fn hash<H: std::hash::Hasher>(&self, h: &mut H) {
        self.s.hash(h)
    }
}
impl std::fmt::Display for HeaderName {
    fn fmt(&self, f: &mut std::fmt::Formatter<'_>) -> std::fmt::Result {
        f.write_str(self.s)
    }
}
impl AsRef<str> for HeaderName {
    fn as_ref(&self) -> &str {
        self.s
    }
}
impl AsRef<[u8]> for HeaderName {
    fn as_ref(&self) -> &[u8] {
        self.s.as_bytes()
    }
}
impl std::str::FromStr for HeaderName {
    type Err = InvalidHeaderName;
    fn from_str(s: &str) -> Result<HeaderName, InvalidHeaderName> {
        HeaderName::from_bytes(s.as_bytes())
    }
}
impl<'a> From<&'a HeaderName> for HeaderName {
    fn from(s: &'a HeaderName) -> HeaderName {
        s.clone()
    }
}
impl<'a> TryFrom<&'a str> for HeaderName {
    type Error = InvalidHeaderName;
    fn try_from(s: &'a str) -> Result<Self, Self::Error> {
        HeaderName::from_bytes(s.as_bytes())
    }
}
impl<'a> TryFrom<&'a String> for HeaderName {
    type Error = InvalidHeaderName;
    fn try_from(s: &'a String) -> Result<Self, Self::Error> {
        HeaderName::from_bytes(s.as_bytes())
    }
}
impl TryFrom<String> for HeaderName {
    type Error = InvalidHeaderName;
    fn try_from(s: String) -> Result<Self, Self::Error> {
        HeaderName::from_bytes(s.as_bytes())
    }
}
impl<'a> TryFrom<&'a [u8]> for HeaderName {
    type Error = InvalidHeaderName;
    fn try_from(s: &'a [u8]) -> Result<Self, Self::Error> {
        HeaderName::from_bytes(s)
    }
}

// ---------------------------------------------------------------------------------------

/// A header value: any bytes except CTLs other than HTAB.
///
/// MODEL: the bytes are always a `&'static [u8]` (owned buffers are leaked). The type then has
/// no drop glue, which matters under the model checker: dropping or moving a map of values
/// would otherwise be a loop over all of its slots.
#[derive(Clone, Copy, Debug)]
pub struct HeaderValue {
    bytes: &'static [u8],
    sensitive: bool,
}
pub const INLINE_CAP: usize = 24;

fn leak(v: Vec<u8>) -> &'static [u8] {
    v.leak()
}

fn is_valid_value_byte(b: u8) -> bool {
    b >= 32 && b != 127 || b == b'\t'
}
fn is_visible_ascii(b: u8) -> bool {
    b >= 32 && b < 127 || b == b'\t'
}

impl HeaderValue {
    /// Panics if the string contains a byte the real crate rejects (it requires visible ASCII).
    pub fn from_static(src: &'static str) -> HeaderValue {
        let b = src.as_bytes();
        assert!(all_bytes(b, is_visible_ascii), "invalid header value");
        HeaderValue { bytes: b, sensitive: false }
    }

    pub fn from_str(src: &str) -> Result<HeaderValue, InvalidHeaderValue> {
        let b = src.as_bytes();
        if !all_bytes(b, is_visible_ascii) {
            return Err(InvalidHeaderValue { _p: () });
        }
        Ok(HeaderValue { bytes: leak(b.to_vec()), sensitive: false })
    }

    pub fn from_bytes(src: &[u8]) -> Result<HeaderValue, InvalidHeaderValue> {
        if !all_bytes(src, is_valid_value_byte) {
            return Err(InvalidHeaderValue { _p: () });
        }
        Ok(HeaderValue { bytes: leak(src.to_vec()), sensitive: false })
    }

    pub fn from_maybe_shared<T: AsRef<[u8]> + 'static>(src: T) -> Result<HeaderValue, InvalidHeaderValue> {
        HeaderValue::from_bytes(src.as_ref())
    }

    /// # Safety
    /// Caller promises the bytes are valid (as in the real crate).
    pub unsafe fn from_maybe_shared_unchecked<T: AsRef<[u8]> + 'static>(src: T) -> HeaderValue {
        HeaderValue { bytes: leak(src.as_ref().to_vec()), sensitive: false }
    }

    /// MODEL-ONLY constructor used by harnesses: takes ownership of a byte vector without a scan.
    pub fn model_from_vec(v: Vec<u8>) -> HeaderValue {
        HeaderValue { bytes: leak(v), sensitive: false }
    }
    /// MODEL-ONLY constructor used by harnesses: static bytes (may be non-ASCII) without a scan.
    pub fn model_from_static_bytes(v: &'static [u8]) -> HeaderValue {
        HeaderValue { bytes: v, sensitive: false }
    }

    /// MODEL-ONLY constructor used by harnesses for values of symbolic length: the buffer is
    /// allocated with the constant capacity INLINE_CAP (an allocation of symbolic size is what the
    /// model checker cannot afford), then filled.
    pub fn model_from_inline(b: &[u8]) -> HeaderValue {
        assert!(b.len() <= INLINE_CAP);
        let mut v = Vec::with_capacity(INLINE_CAP);
        v.extend_from_slice(b);
        HeaderValue { bytes: leak(v), sensitive: false }
    }

    pub fn as_bytes(&self) -> &[u8] {
        self.bytes
    }

    pub fn to_str(&self) -> Result<&str, ToStrError> {
        let b = self.as_bytes();
        if !all_bytes(b, is_visible_ascii) {
            return Err(ToStrError { _p: () });
        }
        Ok(unsafe { std::str::from_utf8_unchecked(b) })
    }

    pub fn len(&self) -> usize {
        self.as_bytes().len()
    }
    pub fn is_empty(&self) -> bool {
        self.as_bytes().is_empty()
    }
    pub fn set_sensitive(&mut self, v: bool) {
        self.sensitive = v
    }
    pub fn is_sensitive(&self) -> bool {
        self.sensitive
    }
}

impl AsRef<[u8]> for HeaderValue {
    fn as_ref(&self) -> &[u8] {
        self.as_bytes()
    }
}
impl PartialEq for HeaderValue {
    fn eq(&self, o: &HeaderValue) -> bool {
        bytes_eq(self.as_bytes(), o.as_bytes())
    }
}
impl Eq for HeaderValue {}
impl PartialEq<str> for HeaderValue {
    fn eq(&self, o: &str) -> bool {
        bytes_eq(self.as_bytes(), o.as_bytes())
    }
}
impl PartialEq<[u8]> for HeaderValue {
    fn eq(&self, o: &[u8]) -> bool {
        bytes_eq(self.as_bytes(), o)
    }
}
impl<'a> PartialEq<&'a str> for HeaderValue {
    fn eq(&self, o: &&'a str) -> bool {
        bytes_eq(self.as_bytes(), o.as_bytes())
    }
}
impl<'a> PartialEq<&'a [u8]> for HeaderValue {
    fn eq(&self, o: &&'a [u8]) -> bool {
        bytes_eq(self.as_bytes(), o)
    }
}
impl PartialEq<String> for HeaderValue {
    fn eq(&self, o: &String) -> bool {
        bytes_eq(self.as_bytes(), o.as_bytes())
    }
}
impl PartialEq<HeaderValue> for str {
    fn eq(&self, o: &HeaderValue) -> bool {
        bytes_eq(self.as_bytes(), o.as_bytes())
    }
}
impl PartialEq<HeaderValue> for [u8] {
    fn eq(&self, o: &HeaderValue) -> bool {
        bytes_eq(self, o.as_bytes())
    }
}
impl<'a> PartialEq<HeaderValue> for &'a str {
    fn eq(&self, o: &HeaderValue) -> bool {
        bytes_eq(self.as_bytes(), o.as_bytes())
    }
}
impl<'a> PartialEq<HeaderValue> for &'a HeaderValue {
    fn eq(&self, o: &HeaderValue) -> bool {
        bytes_eq(self.as_bytes(), o.as_bytes())
    }
}
impl std::str::FromStr for HeaderValue {
    type Err = InvalidHeaderValue;
    fn from_str(s: &str) -> Result<HeaderValue, InvalidHeaderValue> {
        HeaderValue::from_str(s)
    }
}
impl<'a> From<&'a HeaderValue> for HeaderValue {
    fn from(t: &'a HeaderValue) -> HeaderValue {
        t.clone()
    }
}
impl From<HeaderName> for HeaderValue {
    fn from(n: HeaderName) -> HeaderValue {
        HeaderValue { bytes: n.s.as_bytes(), sensitive: false }
    }
}
impl<'a> TryFrom<&'a str> for HeaderValue {
    type Error = InvalidHeaderValue;
    fn try_from(s: &'a str) -> Result<Self, Self::Error> {
        HeaderValue::from_str(s)
    }
}
impl<'a> TryFrom<&'a String> for HeaderValue {
    type Error = InvalidHeaderValue;
    fn try_from(s: &'a String) -> Result<Self, Self::Error> {
        HeaderValue::from_bytes(s.as_bytes())
    }
}
impl<'a> TryFrom<&'a [u8]> for HeaderValue {
    type Error = InvalidHeaderValue;
    fn try_from(s: &'a [u8]) -> Result<Self, Self::Error> {
        HeaderValue::from_bytes(s)
    }
}
impl TryFrom<String> for HeaderValue {
    type Error = InvalidHeaderValue;
    fn try_from(s: String) -> Result<Self, Self::Error> {
        let v = s.into_bytes();
        if !all_bytes(&v[..], is_valid_value_byte) {
            return Err(InvalidHeaderValue { _p: () });
        }
        Ok(HeaderValue { bytes: leak(v), sensitive: false })
    }
}
impl TryFrom<Vec<u8>> for HeaderValue {
    type Error = InvalidHeaderValue;
    fn try_from(v: Vec<u8>) -> Result<Self, Self::Error> {
        if !all_bytes(&v[..], is_valid_value_byte) {
            return Err(InvalidHeaderValue { _p: () });
        }
        Ok(HeaderValue { bytes: leak(v), sensitive: false })
    }
}
macro_rules! from_int {
    ($($t:ty)*) => {$(
        impl From<$t> for HeaderValue {
            fn from(n: $t) -> HeaderValue {
                HeaderValue { bytes: leak(n.to_string().into_bytes()), sensitive: false }
            }
        }
    )*}
}
from_int!(u16 i16 u32 i32 u64 i64 usize isize);

// ---------------------------------------------------------------------------------------

/// Things usable as a lookup key.
pub trait AsHeaderName: sealed::Sealed {}
mod sealed {
    use super::HeaderName;
    pub trait Sealed {
        /// slot of this name, or None if the name is not (and therefore cannot be) in any map
        fn slot(&self) -> Option<usize>;
    }
    impl Sealed for HeaderName {
        fn slot(&self) -> Option<usize> {
            super::slot_of(self, false)
        }
    }
    impl<'a> Sealed for &'a HeaderName {
        fn slot(&self) -> Option<usize> {
            super::slot_of(self, false)
        }
    }
    impl<'a> Sealed for &'a str {
        fn slot(&self) -> Option<usize> {
            super::slot_of_str(self)
        }
    }
    impl Sealed for String {
        fn slot(&self) -> Option<usize> {
            super::slot_of_str(self)
        }
    }
    impl<'a> Sealed for &'a String {
        fn slot(&self) -> Option<usize> {
            super::slot_of_str(self)
        }
    }
}
impl AsHeaderName for HeaderName {}
impl<'a> AsHeaderName for &'a HeaderName {}
impl<'a> AsHeaderName for &'a str {}
impl AsHeaderName for String {}
impl<'a> AsHeaderName for &'a String {}

/// Things usable as an insertion key.
pub trait IntoHeaderName: into_sealed::Sealed {}
mod into_sealed {
    use super::HeaderName;
    pub trait Sealed {
        fn into_name(self) -> HeaderName;
    }
    impl Sealed for HeaderName {
        fn into_name(self) -> HeaderName {
            self
        }
    }
    impl<'a> Sealed for &'a HeaderName {
        fn into_name(self) -> HeaderName {
            self.clone()
        }
    }
    impl Sealed for &'static str {
        fn into_name(self) -> HeaderName {
            HeaderName::from_static(self)
        }
    }
}
impl IntoHeaderName for HeaderName {}
impl<'a> IntoHeaderName for &'a HeaderName {}
impl IntoHeaderName for &'static str {}

/// Slots. The names http-serve itself reads or writes have FIXED slots (a constant table, so a
/// lookup or insertion with a constant name is a constant array index under the model checker);
/// any other name gets one of the NDYN dynamic slots on first use.
pub const NFIXED: usize = 18;
pub const NDYN: usize = 6;
pub const NSLOT: usize = NFIXED + NDYN;
/// Additional values of names that already have one (multi-valued headers).
pub const NMORE: usize = 4;

const FIXED: [HeaderName; NFIXED] = [
    ACCEPT_RANGES, DATE, LAST_MODIFIED, ETAG, CONTENT_RANGE, CONTENT_LENGTH, CONTENT_TYPE, ALLOW, VARY,
    CONTENT_ENCODING, CONTENT_LANGUAGE, RANGE, IF_RANGE, IF_MATCH, IF_NONE_MATCH, IF_MODIFIED_SINCE,
    IF_UNMODIFIED_SINCE, ACCEPT_ENCODING,
];

const fn fixed_slot(idx: u16) -> usize {
    // idx values of the standard_headers! table
    match idx {
        4 => 0,   // accept-ranges
        18 => 1,  // date
        28 => 2,  // last-modified
        19 => 3,  // etag
        15 => 4,  // content-range
        13 => 5,  // content-length
        16 => 6,  // content-type
        6 => 7,   // allow
        41 => 8,  // vary
        11 => 9,  // content-encoding
        12 => 10, // content-language
        31 => 11, // range
        26 => 12, // if-range
        23 => 13, // if-match
        25 => 14, // if-none-match
        24 => 15, // if-modified-since
        27 => 16, // if-unmodified-since
        2 => 17,  // accept-encoding
        _ => NSLOT,
    }
}

const NO_NAME: HeaderName = HeaderName { idx: CUSTOM, s: "" };
static mut DYN_NAMES: [HeaderName; NDYN] = [NO_NAME; NDYN];
static mut N_DYN: usize = 0;

/// slot of a name; `assign`: give it a dynamic slot if it has none yet
#[allow(static_mut_refs)]
fn slot_of(name: &HeaderName, assign: bool) -> Option<usize> {
    let f = fixed_slot(name.idx);
    if f < NSLOT {
        return Some(f);
    }
    unsafe {
        let mut k = 0;
        while k < NDYN {
            if k < N_DYN && DYN_NAMES[k].idx == name.idx {
                return Some(NFIXED + k);
            }
            k += 1;
        }
        if !assign {
            return None;
        }
        assert!(N_DYN < NDYN, "http model: more than NDYN header names outside the fixed table");
        DYN_NAMES[N_DYN] = name.clone();
        N_DYN += 1;
        Some(NFIXED + N_DYN - 1)
    }
}

fn slot_of_str(s: &str) -> Option<usize> {
    // lookups by string are case-insensitive in the real crate; the model lower-cases
    let b = s.as_bytes();
    assert!(b.len() <= MODEL_MAX_STR);
    let mut low = [0u8; MODEL_MAX_STR];
    let mut i = 0;
    while i < b.len() {
        low[i] = b[i].to_ascii_lowercase();
        i += 1;
    }
    let idx = lookup(&low[..b.len()]);
    if idx != CUSTOM {
        return slot_of(&HeaderName { idx, s: "" }, false);
    }
    unsafe {
        let mut k = 0;
        while k < INTERN_CAP {
            if k < N_INTERNED && bytes_eq(INTERNED[k].as_bytes(), &low[..b.len()]) {
                return slot_of(&HeaderName { idx: CUSTOM_BASE + k as u16, s: "" }, false);
            }
            k += 1;
        }
    }
    None
}

#[allow(static_mut_refs)]
fn name_of_slot(slot: usize) -> &'static HeaderName {
    if slot < NFIXED {
        &FIXED_STATIC[slot]
    } else {
        unsafe { &DYN_NAMES[slot - NFIXED] }
    }
}
static FIXED_STATIC: [HeaderName; NFIXED] = FIXED;

/// Multimap keyed by header name, iteration in order of first insertion of each name, the
/// values of one name adjacent (as the real map iterates).
///
/// Storage: one slot per name (see above), `order` remembers the order of first insertion,
/// `more` holds second and further values. No heap, no names stored (a slot determines its
/// name), 24 slots: small values matter -- the model checker copies and compares whole maps.
/// More than NMORE repeated values or NDYN unusual names trip a model-capacity assertion.
#[derive(Debug)]
pub struct HeaderMap<T = HeaderValue> {
    first: [Option<T>; NSLOT],
    order: [u8; NSLOT],
    norder: usize,
    more: [Option<(u8, T)>; NMORE],
    nmore: usize,
}

impl HeaderMap<HeaderValue> {
    pub fn new() -> Self {
        HeaderMap::default()
    }
}

impl<T> Default for HeaderMap<T> {
    fn default() -> Self {
        HeaderMap {
            first: [const { None }; NSLOT],
            order: [0; NSLOT],
            norder: 0,
            more: [const { None }; NMORE],
            nmore: 0,
        }
    }
}

impl<T: Clone> Clone for HeaderMap<T> {
    fn clone(&self) -> Self {
        let mut m = HeaderMap::default();
        for (k, v) in self.iter() {
            m.append(k.clone(), v.clone());
        }
        m
    }
}

impl<T> HeaderMap<T> {
    pub fn with_capacity(_n: usize) -> Self {
        HeaderMap::default()
    }
    pub fn len(&self) -> usize {
        self.norder + self.nmore
    }
    pub fn keys_len(&self) -> usize {
        self.norder
    }
    pub fn is_empty(&self) -> bool {
        self.norder == 0
    }
    pub fn clear(&mut self) {
        *self = HeaderMap::default();
    }
    pub fn capacity(&self) -> usize {
        NSLOT + NMORE
    }
    pub fn reserve(&mut self, _n: usize) {}

    pub fn get<K: AsHeaderName>(&self, key: K) -> Option<&T> {
        match sealed::Sealed::slot(&key) {
            Some(s) => self.first[s].as_ref(),
            None => None,
        }
    }
    pub fn get_mut<K: AsHeaderName>(&mut self, key: K) -> Option<&mut T> {
        match sealed::Sealed::slot(&key) {
            Some(s) => self.first[s].as_mut(),
            None => None,
        }
    }
    pub fn contains_key<K: AsHeaderName>(&self, key: K) -> bool {
        self.get(key).is_some()
    }
    pub fn get_all<K: AsHeaderName>(&self, key: K) -> GetAll<'_, T> {
        GetAll { map: self, slot: sealed::Sealed::slot(&key) }
    }
    /// MODEL-ONLY: how many values the name has.
    pub fn model_count<K: AsHeaderName>(&self, key: K) -> usize {
        match sealed::Sealed::slot(&key) {
            None => 0,
            Some(s) => {
                if self.first[s].is_none() {
                    return 0;
                }
                let mut n = 1;
                let mut i = 0;
                while i < NMORE {
                    if let Some((sl, _)) = &self.more[i] {
                        if *sl as usize == s {
                            n += 1;
                        }
                    }
                    i += 1;
                }
                n
            }
        }
    }

    fn drop_more(&mut self, slot: usize) {
        // remove every additional value of `slot`, keeping the others in order
        let mut w = 0;
        let mut i = 0;
        while i < NMORE {
            let keep = match &self.more[i] {
                Some((sl, _)) => *sl as usize != slot,
                None => false,
            };
            if keep {
                if w != i {
                    self.more[w] = self.more[i].take();
                }
                w += 1;
            } else {
                self.more[i] = None;
            }
            i += 1;
        }
        self.nmore = w;
    }

    /// Replaces all values of the name; returns the first previous value.
    pub fn insert<K: IntoHeaderName>(&mut self, key: K, val: T) -> Option<T> {
        let name = into_sealed::Sealed::into_name(key);
        let s = slot_of(&name, true).unwrap();
        match self.first[s].take() {
            None => {
                self.first[s] = Some(val);
                self.order[self.norder] = s as u8;
                self.norder += 1;
                None
            }
            Some(old) => {
                self.first[s] = Some(val);
                if self.nmore > 0 {
                    self.drop_more(s);
                }
                Some(old)
            }
        }
    }

    /// Adds a value; returns true if the name was already present.
    pub fn append<K: IntoHeaderName>(&mut self, key: K, val: T) -> bool {
        let name = into_sealed::Sealed::into_name(key);
        let s = slot_of(&name, true).unwrap();
        if self.first[s].is_none() {
            self.first[s] = Some(val);
            self.order[self.norder] = s as u8;
            self.norder += 1;
            false
        } else {
            assert!(self.nmore < NMORE, "http model: more than NMORE repeated header values");
            self.more[self.nmore] = Some((s as u8, val));
            self.nmore += 1;
            true
        }
    }

    pub fn remove<K: AsHeaderName>(&mut self, key: K) -> Option<T> {
        let s = sealed::Sealed::slot(&key)?;
        let old = self.first[s].take()?;
        self.drop_more(s);
        let mut w = 0;
        let mut i = 0;
        while i < NSLOT {
            if i < self.norder && self.order[i] as usize != s {
                self.order[w] = self.order[i];
                w += 1;
            }
            i += 1;
        }
        self.norder = w;
        Some(old)
    }

    pub fn iter(&self) -> Iter<'_, T> {
        Iter { map: self, oi: 0, mi: NMORE + 1 }
    }
    pub fn keys(&self) -> Keys<'_, T> {
        Keys { map: self, oi: 0 }
    }
    pub fn values(&self) -> Values<'_, T> {
        Values { inner: self.iter() }
    }
}

/// Iterates (name, value): for each name in order of first insertion, its first value and then
/// its additional values.
pub struct Iter<'a, T> {
    map: &'a HeaderMap<T>,
    oi: usize,
    /// NMORE + 1: next item is the first value of order[oi]; otherwise index into `more` to scan from
    mi: usize,
}
impl<'a, T> Iterator for Iter<'a, T> {
    type Item = (&'a HeaderName, &'a T);
    fn next(&mut self) -> Option<Self::Item> {
        let mut guard = 0;
        while guard < NMORE + 2 {
            guard += 1;
            if self.oi >= self.map.norder {
                return None;
            }
            let s = self.map.order[self.oi] as usize;
            let name = name_of_slot(s);
            if self.mi == NMORE + 1 {
                self.mi = 0;
                if self.map.nmore == 0 {
                    // common case: single-valued names only
                    self.oi += 1;
                    self.mi = NMORE + 1;
                }
                if let Some(v) = &self.map.first[s] {
                    return Some((name, v));
                }
                continue;
            }
            while self.mi < NMORE {
                let i = self.mi;
                self.mi += 1;
                if let Some((sl, v)) = &self.map.more[i] {
                    if *sl as usize == s {
                        return Some((name, v));
                    }
                }
            }
            self.oi += 1;
            self.mi = NMORE + 1;
        }
        None
    }
    fn size_hint(&self) -> (usize, Option<usize>) {
        (0, Some(self.map.len()))
    }
}
pub struct Values<'a, T> {
    inner: Iter<'a, T>,
}
impl<'a, T> Iterator for Values<'a, T> {
    type Item = &'a T;
    fn next(&mut self) -> Option<Self::Item> {
        self.inner.next().map(|(_, v)| v)
    }
}
pub struct Keys<'a, T> {
    map: &'a HeaderMap<T>,
    oi: usize,
}
impl<'a, T> Iterator for Keys<'a, T> {
    type Item = &'a HeaderName;
    fn next(&mut self) -> Option<Self::Item> {
        if self.oi >= self.map.norder {
            return None;
        }
        let s = self.map.order[self.oi] as usize;
        self.oi += 1;
        Some(name_of_slot(s))
    }
}
pub struct GetAll<'a, T> {
    map: &'a HeaderMap<T>,
    slot: Option<usize>,
}
impl<'a, T> GetAll<'a, T> {
    pub fn iter(&self) -> ValueIter<'a, T> {
        ValueIter { map: self.map, slot: self.slot, first_done: false, mi: 0 }
    }
}
impl<'a, T> IntoIterator for GetAll<'a, T> {
    type Item = &'a T;
    type IntoIter = ValueIter<'a, T>;
    fn into_iter(self) -> ValueIter<'a, T> {
        self.iter()
    }
}
impl<'a, 'b: 'a, T> IntoIterator for &'b GetAll<'a, T> {
    type Item = &'a T;
    type IntoIter = ValueIter<'a, T>;
    fn into_iter(self) -> ValueIter<'a, T> {
        self.iter()
    }
}
pub struct ValueIter<'a, T> {
    map: &'a HeaderMap<T>,
    slot: Option<usize>,
    first_done: bool,
    mi: usize,
}
impl<'a, T> Iterator for ValueIter<'a, T> {
    type Item = &'a T;
    fn next(&mut self) -> Option<&'a T> {
        let s = self.slot?;
        if !self.first_done {
            self.first_done = true;
            return self.map.first[s].as_ref();
        }
        if self.map.first[s].is_none() {
            return None;
        }
        while self.mi < NMORE {
            let i = self.mi;
            self.mi += 1;
            if let Some((sl, v)) = &self.map.more[i] {
                if *sl as usize == s {
                    return Some(v);
                }
            }
        }
        None
    }
}

impl<'a, T> IntoIterator for &'a HeaderMap<T> {
    type Item = (&'a HeaderName, &'a T);
    type IntoIter = Iter<'a, T>;
    fn into_iter(self) -> Iter<'a, T> {
        self.iter()
    }
}

/// Owning iterator: like the real one, yields `Some(name)` only for the first value of a name.
pub struct IntoIter<T> {
    map: HeaderMap<T>,
    oi: usize,
    mi: usize,
}
impl<T> Iterator for IntoIter<T> {
    type Item = (Option<HeaderName>, T);
    fn next(&mut self) -> Option<Self::Item> {
        let mut guard = 0;
        while guard < NSLOT + NMORE + 2 {
            guard += 1;
            if self.oi >= self.map.norder {
                return None;
            }
            let s = self.map.order[self.oi] as usize;
            if self.mi == NMORE + 1 {
                self.mi = 0;
                if let Some(v) = self.map.first[s].take() {
                    return Some((Some(name_of_slot(s).clone()), v));
                }
            }
            while self.mi < NMORE {
                let i = self.mi;
                self.mi += 1;
                let hit = match &self.map.more[i] {
                    Some((sl, _)) => *sl as usize == s,
                    None => false,
                };
                if hit {
                    let (_, v) = self.map.more[i].take().unwrap();
                    return Some((None, v));
                }
            }
            self.oi += 1;
            self.mi = NMORE + 1;
        }
        None
    }
}
impl<T> IntoIterator for HeaderMap<T> {
    type Item = (Option<HeaderName>, T);
    type IntoIter = IntoIter<T>;
    fn into_iter(self) -> IntoIter<T> {
        IntoIter { map: self, oi: 0, mi: NMORE + 1 }
    }
}

/// `extend` with (name, value) pairs behaves like repeated `append` (as the real crate).
impl<T> Extend<(HeaderName, T)> for HeaderMap<T> {
    fn extend<I: IntoIterator<Item = (HeaderName, T)>>(&mut self, iter: I) {
        for (k, v) in iter {
            self.append(k, v);
        }
    }
}
/// `extend` with (Option<name>, value): `Some` replaces, `None` appends to the previous name.
impl<T> Extend<(Option<HeaderName>, T)> for HeaderMap<T> {
    fn extend<I: IntoIterator<Item = (Option<HeaderName>, T)>>(&mut self, iter: I) {
        let mut cur: Option<HeaderName> = None;
        for (k, v) in iter {
            match k {
                Some(k) => {
                    self.insert(k.clone(), v);
                    cur = Some(k);
                }
                None => {
                    let k = cur.clone().expect("expected a header name, but got None");
                    self.append(k, v);
                }
            }
        }
    }
}
impl<T> std::iter::FromIterator<(HeaderName, T)> for HeaderMap<T> {
    fn from_iter<I: IntoIterator<Item = (HeaderName, T)>>(iter: I) -> Self {
        let mut m = HeaderMap::default();
        m.extend(iter);
        m
    }
}
impl<T: PartialEq> PartialEq for HeaderMap<T> {
    fn eq(&self, o: &HeaderMap<T>) -> bool {
        if self.len() != o.len() || self.norder != o.norder {
            return false;
        }
        let mut s = 0;
        while s < NSLOT {
            if self.first[s] != o.first[s] {
                return false;
            }
            s += 1;
        }
        let mut i = 0;
        while i < NMORE {
            if self.more[i] != o.more[i] {
                return false;
            }
            i += 1;
        }
        true
    }
}
impl<K: AsHeaderName, T> std::ops::Index<K> for HeaderMap<T> {
    type Output = T;
    fn index(&self, k: K) -> &T {
        self.get(k).expect("no entry found for key")
    }
}
