//! Model of `http::StatusCode`.

#[derive(Clone, Copy, Debug, PartialEq, Eq, PartialOrd, Ord, Hash)]
pub struct StatusCode(u16);

#[derive(Debug)]
pub struct InvalidStatusCode {
    _p: (),
}
impl std::fmt::Display for InvalidStatusCode {
    fn fmt(&self, f: &mut std::fmt::Formatter<'_>) -> std::fmt::Result {
        f.write_str("invalid status code")
    }
}
impl std::error::Error for InvalidStatusCode {}

macro_rules! codes {
    ($( ($k:ident, $n:expr); )+) => { impl StatusCode { $( pub const $k: StatusCode = StatusCode($n); )+ } }
}
codes! {
    (CONTINUE, 100); (SWITCHING_PROTOCOLS, 101); (PROCESSING, 102);
    (OK, 200); (CREATED, 201); (ACCEPTED, 202); (NON_AUTHORITATIVE_INFORMATION, 203);
    (NO_CONTENT, 204); (RESET_CONTENT, 205); (PARTIAL_CONTENT, 206); (MULTI_STATUS, 207);
    (MULTIPLE_CHOICES, 300); (MOVED_PERMANENTLY, 301); (FOUND, 302); (SEE_OTHER, 303);
    (NOT_MODIFIED, 304); (USE_PROXY, 305); (TEMPORARY_REDIRECT, 307); (PERMANENT_REDIRECT, 308);
    (BAD_REQUEST, 400); (UNAUTHORIZED, 401); (PAYMENT_REQUIRED, 402); (FORBIDDEN, 403);
    (NOT_FOUND, 404); (METHOD_NOT_ALLOWED, 405); (NOT_ACCEPTABLE, 406);
    (PROXY_AUTHENTICATION_REQUIRED, 407); (REQUEST_TIMEOUT, 408); (CONFLICT, 409); (GONE, 410);
    (LENGTH_REQUIRED, 411); (PRECONDITION_FAILED, 412); (PAYLOAD_TOO_LARGE, 413);
    (URI_TOO_LONG, 414); (UNSUPPORTED_MEDIA_TYPE, 415); (RANGE_NOT_SATISFIABLE, 416);
    (EXPECTATION_FAILED, 417); (IM_A_TEAPOT, 418); (MISDIRECTED_REQUEST, 421);
    (UNPROCESSABLE_ENTITY, 422); (LOCKED, 423); (FAILED_DEPENDENCY, 424);
    (UPGRADE_REQUIRED, 426); (PRECONDITION_REQUIRED, 428); (TOO_MANY_REQUESTS, 429);
    (REQUEST_HEADER_FIELDS_TOO_LARGE, 431); (UNAVAILABLE_FOR_LEGAL_REASONS, 451);
    (INTERNAL_SERVER_ERROR, 500); (NOT_IMPLEMENTED, 501); (BAD_GATEWAY, 502);
    (SERVICE_UNAVAILABLE, 503); (GATEWAY_TIMEOUT, 504); (HTTP_VERSION_NOT_SUPPORTED, 505);
    (VARIANT_ALSO_NEGOTIATES, 506); (INSUFFICIENT_STORAGE, 507); (LOOP_DETECTED, 508);
    (NOT_EXTENDED, 510); (NETWORK_AUTHENTICATION_REQUIRED, 511);
}

impl StatusCode {
    pub fn from_u16(src: u16) -> Result<StatusCode, InvalidStatusCode> {
        if !(100..1000).contains(&src) {
            return Err(InvalidStatusCode { _p: () });
        }
        Ok(StatusCode(src))
    }
    pub fn as_u16(&self) -> u16 {
        self.0
    }
    pub fn is_informational(&self) -> bool {
        (100..200).contains(&self.0)
    }
    pub fn is_success(&self) -> bool {
        (200..300).contains(&self.0)
    }
    pub fn is_redirection(&self) -> bool {
        (300..400).contains(&self.0)
    }
    pub fn is_client_error(&self) -> bool {
        (400..500).contains(&self.0)
    }
    pub fn is_server_error(&self) -> bool {
        (500..600).contains(&self.0)
    }
}
impl Default for StatusCode {
    fn default() -> StatusCode {
        StatusCode::OK
    }
}
impl PartialEq<u16> for StatusCode {
    fn eq(&self, o: &u16) -> bool {
        self.0 == *o
    }
}
impl PartialEq<StatusCode> for u16 {
    fn eq(&self, o: &StatusCode) -> bool {
        *self == o.0
    }
}
impl From<StatusCode> for u16 {
    fn from(s: StatusCode) -> u16 {
        s.0
    }
}
impl<'a> From<&'a StatusCode> for StatusCode {
    fn from(t: &'a StatusCode) -> Self {
        *t
    }
}
impl TryFrom<u16> for StatusCode {
    type Error = InvalidStatusCode;
    fn try_from(t: u16) -> Result<Self, Self::Error> {
        StatusCode::from_u16(t)
    }
}
impl std::fmt::Display for StatusCode {
    fn fmt(&self, f: &mut std::fmt::Formatter<'_>) -> std::fmt::Result {
        write!(f, "{}", self.0)
    }
}
