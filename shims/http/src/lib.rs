//! Verification MODEL of the `http` crate (engine K2 of /verif/DESIGN.md).
//!
//! Same public surface as the parts of `http` 1.x that http-serve and http-body use, with
//! the same observable contracts, but implemented with the simplest possible data
//! structures so that a bounded model checker can execute through them:
//!
//! * `HeaderMap` is an insertion-ordered association list (`Vec<(HeaderName, HeaderValue)>`),
//!   multi-valued like the real one: `insert` replaces every value of the name, `append`
//!   adds one, `get` returns the first, iteration groups values by name in order of first
//!   appearance.
//! * `HeaderName` is a lower-case static string (+ an index when it is a standard name).
//! * `HeaderValue` is a static slice or an owned `Vec<u8>`, validated like the real one
//!   (no bytes < 0x20 except HTAB, no 0x7f); `to_str` succeeds on visible ASCII/SP/HTAB only.
//! * `Method` is a closed enum plus opaque extension tokens; `StatusCode` is a checked `u16`.
//!
//! The conformance suite in /verif/shims/conformance runs identical call sequences against
//! this model and the real crate.
#![allow(clippy::all)]

pub mod header;
pub mod method;
pub mod request;
pub mod response;
pub mod status;

pub use crate::header::{HeaderMap, HeaderName, HeaderValue};
pub use crate::method::Method;
pub use crate::request::Request;
pub use crate::request::Uri;
pub use crate::response::Response;
pub use crate::status::StatusCode;

/// HTTP version (only carried around).
#[derive(Clone, Copy, Debug, PartialEq, Eq, Default)]
pub enum Version {
    Http09,
    Http10,
    #[default]
    Http11,
    H2,
    H3,
}
impl Version {
    pub const HTTP_09: Version = Version::Http09;
    pub const HTTP_10: Version = Version::Http10;
    pub const HTTP_11: Version = Version::Http11;
    pub const HTTP_2: Version = Version::H2;
    pub const HTTP_3: Version = Version::H3;
}

/// Type map placeholder.
#[derive(Clone, Debug, Default)]
pub struct Extensions;
impl Extensions {
    pub fn new() -> Self {
        Extensions
    }
}

/// The crate's error type.
#[derive(Debug)]
pub struct Error {
    kind: &'static str,
}
impl Error {
    pub(crate) fn new(kind: &'static str) -> Self {
        Error { kind }
    }
}
impl std::fmt::Display for Error {
    fn fmt(&self, f: &mut std::fmt::Formatter<'_>) -> std::fmt::Result {
        f.write_str(self.kind)
    }
}
impl std::error::Error for Error {}
impl From<std::convert::Infallible> for Error {
    fn from(e: std::convert::Infallible) -> Error {
        match e {}
    }
}
impl From<header::InvalidHeaderName> for Error {
    fn from(_: header::InvalidHeaderName) -> Error {
        Error::new("invalid header name")
    }
}
impl From<header::InvalidHeaderValue> for Error {
    fn from(_: header::InvalidHeaderValue) -> Error {
        Error::new("invalid header value")
    }
}
impl From<status::InvalidStatusCode> for Error {
    fn from(_: status::InvalidStatusCode) -> Error {
        Error::new("invalid status code")
    }
}
impl From<method::InvalidMethod> for Error {
    fn from(_: method::InvalidMethod) -> Error {
        Error::new("invalid method")
    }
}

pub type Result<T> = std::result::Result<T, Error>;
