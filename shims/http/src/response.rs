//! Model of `http::response`.

use crate::header::{HeaderMap, HeaderName, HeaderValue};
use crate::status::StatusCode;
use crate::{Extensions, Result, Version};
use std::convert::TryFrom;

#[derive(Debug)]
pub struct Response<T> {
    head: Parts,
    body: T,
}

#[derive(Debug)]
pub struct Parts {
    pub status: StatusCode,
    pub version: Version,
    pub headers: HeaderMap<HeaderValue>,
    pub extensions: Extensions,
    _priv: (),
}

impl Parts {
    fn new() -> Parts {
        Parts {
            status: StatusCode::default(),
            version: Version::default(),
            headers: HeaderMap::default(),
            extensions: Extensions::default(),
            _priv: (),
        }
    }
}

#[derive(Debug)]
pub struct Builder {
    inner: Result<Parts>,
}

impl Response<()> {
    pub fn builder() -> Builder {
        Builder::new()
    }
}

impl<T> Response<T> {
    pub fn new(body: T) -> Response<T> {
        Response { head: Parts::new(), body }
    }
    pub fn from_parts(parts: Parts, body: T) -> Response<T> {
        Response { head: parts, body }
    }
    pub fn status(&self) -> StatusCode {
        self.head.status
    }
    pub fn status_mut(&mut self) -> &mut StatusCode {
        &mut self.head.status
    }
    pub fn version(&self) -> Version {
        self.head.version
    }
    pub fn version_mut(&mut self) -> &mut Version {
        &mut self.head.version
    }
    pub fn headers(&self) -> &HeaderMap<HeaderValue> {
        &self.head.headers
    }
    pub fn headers_mut(&mut self) -> &mut HeaderMap<HeaderValue> {
        &mut self.head.headers
    }
    pub fn extensions(&self) -> &Extensions {
        &self.head.extensions
    }
    pub fn extensions_mut(&mut self) -> &mut Extensions {
        &mut self.head.extensions
    }
    pub fn body(&self) -> &T {
        &self.body
    }
    pub fn body_mut(&mut self) -> &mut T {
        &mut self.body
    }
    pub fn into_body(self) -> T {
        self.body
    }
    pub fn into_parts(self) -> (Parts, T) {
        (self.head, self.body)
    }
    pub fn map<F, U>(self, f: F) -> Response<U>
    where
        F: FnOnce(T) -> U,
    {
        Response { body: f(self.body), head: self.head }
    }
}

impl<T: Default> Default for Response<T> {
    fn default() -> Response<T> {
        Response::new(T::default())
    }
}

impl Builder {
    pub fn new() -> Builder {
        Builder { inner: Ok(Parts::new()) }
    }

    pub fn status<T>(self, status: T) -> Builder
    where
        StatusCode: TryFrom<T>,
        <StatusCode as TryFrom<T>>::Error: Into<crate::Error>,
    {
        self.and_then(move |mut head| {
            head.status = TryFrom::try_from(status).map_err(Into::into)?;
            Ok(head)
        })
    }

    pub fn version(self, version: Version) -> Builder {
        self.and_then(move |mut head| {
            head.version = version;
            Ok(head)
        })
    }

    pub fn header<K, V>(self, key: K, value: V) -> Builder
    where
        HeaderName: TryFrom<K>,
        <HeaderName as TryFrom<K>>::Error: Into<crate::Error>,
        HeaderValue: TryFrom<V>,
        <HeaderValue as TryFrom<V>>::Error: Into<crate::Error>,
    {
        self.and_then(move |mut head| {
            let name = <HeaderName as TryFrom<K>>::try_from(key).map_err(Into::into)?;
            let value = <HeaderValue as TryFrom<V>>::try_from(value).map_err(Into::into)?;
            head.headers.append(name, value);
            Ok(head)
        })
    }

    pub fn headers_ref(&self) -> Option<&HeaderMap<HeaderValue>> {
        self.inner.as_ref().ok().map(|h| &h.headers)
    }
    pub fn headers_mut(&mut self) -> Option<&mut HeaderMap<HeaderValue>> {
        self.inner.as_mut().ok().map(|h| &mut h.headers)
    }

    pub fn body<T>(self, body: T) -> Result<Response<T>> {
        self.inner.map(move |head| Response { head, body })
    }

    fn and_then<F>(self, func: F) -> Self
    where
        F: FnOnce(Parts) -> Result<Parts>,
    {
        Builder { inner: self.inner.and_then(func) }
    }
}

impl Default for Builder {
    fn default() -> Builder {
        Builder::new()
    }
}
