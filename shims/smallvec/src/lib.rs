//! Verification MODEL of the `smallvec` crate (engine K2 of /verif/DESIGN.md).
//!
//! `SmallVec<A>` behaves like a `Vec<A::Item>`: same observable contract (a growable
//! sequence), no inline-vs-heap representation switch. The backing Vec is created with a
//! fixed capacity so that a bounded number of pushes never reallocates under the model checker.
#![allow(clippy::all)]

use std::ops::{Deref, DerefMut};

pub unsafe trait Array {
    type Item;
    fn size() -> usize;
}
unsafe impl<T, const N: usize> Array for [T; N] {
    type Item = T;
    fn size() -> usize {
        N
    }
}

const MODEL_CAP: usize = 8;

pub struct SmallVec<A: Array> {
    v: Vec<A::Item>,
}

impl<A: Array> SmallVec<A> {
    pub fn new() -> SmallVec<A> {
        SmallVec { v: Vec::with_capacity(MODEL_CAP) }
    }
    pub fn with_capacity(n: usize) -> SmallVec<A> {
        SmallVec { v: Vec::with_capacity(if n > MODEL_CAP { n } else { MODEL_CAP }) }
    }
    pub fn from_vec(v: Vec<A::Item>) -> SmallVec<A> {
        SmallVec { v }
    }
    pub fn inline_size(&self) -> usize {
        A::size()
    }
    pub fn len(&self) -> usize {
        self.v.len()
    }
    pub fn is_empty(&self) -> bool {
        self.v.is_empty()
    }
    pub fn capacity(&self) -> usize {
        self.v.capacity()
    }
    pub fn spilled(&self) -> bool {
        self.v.len() > A::size()
    }
    pub fn push(&mut self, t: A::Item) {
        self.v.push(t)
    }
    pub fn pop(&mut self) -> Option<A::Item> {
        self.v.pop()
    }
    pub fn clear(&mut self) {
        self.v.clear()
    }
    pub fn truncate(&mut self, n: usize) {
        self.v.truncate(n)
    }
    pub fn insert(&mut self, i: usize, t: A::Item) {
        self.v.insert(i, t)
    }
    pub fn remove(&mut self, i: usize) -> A::Item {
        self.v.remove(i)
    }
    pub fn swap_remove(&mut self, i: usize) -> A::Item {
        self.v.swap_remove(i)
    }
    pub fn reserve(&mut self, n: usize) {
        self.v.reserve(n)
    }
    pub fn into_vec(self) -> Vec<A::Item> {
        self.v
    }
    pub fn as_slice(&self) -> &[A::Item] {
        &self.v[..]
    }
    pub fn as_mut_slice(&mut self) -> &mut [A::Item] {
        &mut self.v[..]
    }
    pub fn retain<F: FnMut(&mut A::Item) -> bool>(&mut self, mut f: F) {
        self.v.retain_mut(|x| f(x))
    }
    pub fn drain<R: std::ops::RangeBounds<usize>>(&mut self, r: R) -> std::vec::Drain<'_, A::Item> {
        self.v.drain(r)
    }
    pub fn append(&mut self, o: &mut SmallVec<A>) {
        self.v.append(&mut o.v)
    }
}
impl<A: Array> SmallVec<A>
where
    A::Item: Clone,
{
    pub fn from_slice(s: &[A::Item]) -> SmallVec<A> {
        let mut v = SmallVec::new();
        v.v.extend_from_slice(s);
        v
    }
    pub fn extend_from_slice(&mut self, s: &[A::Item]) {
        self.v.extend_from_slice(s)
    }
    pub fn from_elem(e: A::Item, n: usize) -> SmallVec<A> {
        SmallVec { v: vec![e; n] }
    }
    pub fn resize(&mut self, n: usize, e: A::Item) {
        self.v.resize(n, e)
    }
}
impl<A: Array> Default for SmallVec<A> {
    fn default() -> Self {
        SmallVec::new()
    }
}
impl<A: Array> Deref for SmallVec<A> {
    type Target = [A::Item];
    fn deref(&self) -> &[A::Item] {
        &self.v[..]
    }
}
impl<A: Array> DerefMut for SmallVec<A> {
    fn deref_mut(&mut self) -> &mut [A::Item] {
        &mut self.v[..]
    }
}
impl<A: Array> AsRef<[A::Item]> for SmallVec<A> {
    fn as_ref(&self) -> &[A::Item] {
        &self.v[..]
    }
}
impl<A: Array> Clone for SmallVec<A>
where
    A::Item: Clone,
{
    fn clone(&self) -> Self {
        let mut v = Vec::with_capacity(MODEL_CAP);
        v.extend_from_slice(&self.v[..]);
        SmallVec { v }
    }
}
impl<A: Array, B: Array> PartialEq<SmallVec<B>> for SmallVec<A>
where
    A::Item: PartialEq<B::Item>,
{
    fn eq(&self, o: &SmallVec<B>) -> bool {
        self.v[..] == o.v[..]
    }
}
impl<A: Array> Eq for SmallVec<A> where A::Item: Eq {}
impl<A: Array> std::fmt::Debug for SmallVec<A>
where
    A::Item: std::fmt::Debug,
{
    fn fmt(&self, f: &mut std::fmt::Formatter<'_>) -> std::fmt::Result {
        f.debug_list().entries(self.v.iter()).finish()
    }
}
impl<A: Array> std::iter::FromIterator<A::Item> for SmallVec<A> {
    fn from_iter<I: IntoIterator<Item = A::Item>>(it: I) -> Self {
        let mut v = SmallVec::new();
        for x in it {
            v.push(x);
        }
        v
    }
}
impl<A: Array> Extend<A::Item> for SmallVec<A> {
    fn extend<I: IntoIterator<Item = A::Item>>(&mut self, it: I) {
        for x in it {
            self.push(x);
        }
    }
}
impl<A: Array> IntoIterator for SmallVec<A> {
    type Item = A::Item;
    type IntoIter = std::vec::IntoIter<A::Item>;
    fn into_iter(self) -> Self::IntoIter {
        self.v.into_iter()
    }
}
impl<'a, A: Array> IntoIterator for &'a SmallVec<A> {
    type Item = &'a A::Item;
    type IntoIter = std::slice::Iter<'a, A::Item>;
    fn into_iter(self) -> Self::IntoIter {
        self.v.iter()
    }
}
impl<'a, A: Array> IntoIterator for &'a mut SmallVec<A> {
    type Item = &'a mut A::Item;
    type IntoIter = std::slice::IterMut<'a, A::Item>;
    fn into_iter(self) -> Self::IntoIter {
        self.v.iter_mut()
    }
}
impl<A: Array> From<Vec<A::Item>> for SmallVec<A> {
    fn from(v: Vec<A::Item>) -> Self {
        SmallVec { v }
    }
}
impl<A: Array> From<A> for SmallVec<A>
where
    A: IntoIterator<Item = <A as Array>::Item>,
{
    fn from(a: A) -> Self {
        a.into_iter().collect()
    }
}

#[macro_export]
macro_rules! smallvec {
    ($elem:expr; $n:expr) => ({ $crate::SmallVec::from_elem($elem, $n) });
    ($($x:expr),* $(,)?) => ({
        let mut v = $crate::SmallVec::new();
        $( v.push($x); )*
        v
    });
}
