//! Model of the `memchr` crate for verification: naive loops, same contracts.
pub fn memchr(needle: u8, haystack: &[u8]) -> Option<usize> {
    let mut i = 0;
    while i < haystack.len() { if haystack[i] == needle { return Some(i); } i += 1; }
    None
}
pub fn memrchr(needle: u8, haystack: &[u8]) -> Option<usize> {
    let mut i = haystack.len();
    while i > 0 { i -= 1; if haystack[i] == needle { return Some(i); } }
    None
}
