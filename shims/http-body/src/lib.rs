#![deny(
    missing_debug_implementations,
    missing_docs,
    unreachable_pub,
    clippy::missing_safety_doc,
    clippy::undocumented_unsafe_blocks
)]
#![cfg_attr(test, deny(warnings))]

//! Asynchronous HTTP request or response body.
//!
//! See [`Body`] for more details.
//!
//! [`Body`]: trait.Body.html

mod frame;
mod size_hint;

pub use self::frame::Frame;
pub use self::size_hint::SizeHint;

use bytes::{Buf, Bytes};
use std::convert::Infallible;
use std::ops;
use std::pin::Pin;
use std::task::{Context, Poll};

/// Trait representing a streaming body of a Request or Response.
///
/// Individual frames are streamed via the `poll_frame` function, which asynchronously yields
/// instances of [`Frame<Data>`].
///
/// Frames can contain a data buffer of type `Self::Data`. Frames can also contain an optional
/// set of trailers used to finalize the request/response exchange. This is mostly used when using
/// the HTTP/2.0 protocol.
///
/// The `size_hint` function provides insight into the total number of bytes that will be streamed.
pub trait Body {
    /// Values yielded by the `Body`.
    type Data: Buf;

    /// The error type this `Body` might generate.
    type Error;

    #[allow(clippy::type_complexity)]
    /// Attempt to pull out the next data buffer of this stream.
    fn poll_frame(
        self: Pin<&mut Self>,
        cx: &mut Context<'_>,
    ) -> Poll<Option<Result<Frame<Self::Data>, Self::Error>>>;

    /// Returns `true` when the end of stream has been reached.
    ///
    /// An end of stream means that `poll_frame` will return `None`.
    ///
    /// A return value of `false` **does not** guarantee that a value will be
    /// returned from `poll_frame`.
    fn is_end_stream(&self) -> bool {
        false
    }

    /// Returns the bounds on the remaining length of the stream.
    ///
    /// When the **exact** remaining length of the stream is known, the upper bound will be set and
    /// will equal the lower bound.
    fn size_hint(&self) -> SizeHint {
        SizeHint::default()
    }
}

impl<T: Body + Unpin + ?Sized> Body for &mut T {
    type Data = T::Data;
    type Error = T::Error;

    fn poll_frame(
        mut self: Pin<&mut Self>,
        cx: &mut Context<'_>,
    ) -> Poll<Option<Result<Frame<Self::Data>, Self::Error>>> {
        Pin::new(&mut **self).poll_frame(cx)
    }

    fn is_end_stream(&self) -> bool {
        Pin::new(&**self).is_end_stream()
    }

    fn size_hint(&self) -> SizeHint {
        Pin::new(&**self).size_hint()
    }
}

impl<P> Body for Pin<P>
where
    P: Unpin + ops::DerefMut,
    P::Target: Body,
{
    type Data = <<P as ops::Deref>::Target as Body>::Data;
    type Error = <<P as ops::Deref>::Target as Body>::Error;

    fn poll_frame(
        self: Pin<&mut Self>,
        cx: &mut Context<'_>,
    ) -> Poll<Option<Result<Frame<Self::Data>, Self::Error>>> {
        Pin::get_mut(self).as_mut().poll_frame(cx)
    }

    fn is_end_stream(&self) -> bool {
        self.as_ref().is_end_stream()
    }

    fn size_hint(&self) -> SizeHint {
        self.as_ref().size_hint()
    }
}

impl<T: Body + Unpin + ?Sized> Body for Box<T> {
    type Data = T::Data;
    type Error = T::Error;

    fn poll_frame(
        mut self: Pin<&mut Self>,
        cx: &mut Context<'_>,
    ) -> Poll<Option<Result<Frame<Self::Data>, Self::Error>>> {
        Pin::new(&mut **self).poll_frame(cx)
    }

    fn is_end_stream(&self) -> bool {
        self.as_ref().is_end_stream()
    }

    fn size_hint(&self) -> SizeHint {
        self.as_ref().size_hint()
    }
}

impl<B: Body> Body for http::Request<B> {
    type Data = B::Data;
    type Error = B::Error;

    fn poll_frame(
        self: Pin<&mut Self>,
        cx: &mut Context<'_>,
    ) -> Poll<Option<Result<Frame<Self::Data>, Self::Error>>> {
        // SAFETY:
        // A pin projection.
        unsafe {
            self.map_unchecked_mut(http::Request::body_mut)
                .poll_frame(cx)
        }
    }

    fn is_end_stream(&self) -> bool {
        self.body().is_end_stream()
    }

    fn size_hint(&self) -> SizeHint {
        self.body().size_hint()
    }
}

impl<B: Body> Body for http::Response<B> {
    type Data = B::Data;
    type Error = B::Error;

    fn poll_frame(
        self: Pin<&mut Self>,
        cx: &mut Context<'_>,
    ) -> Poll<Option<Result<Frame<Self::Data>, Self::Error>>> {
        // SAFETY:
        // A pin projection.
        unsafe {
            self.map_unchecked_mut(http::Response::body_mut)
                .poll_frame(cx)
        }
    }

    fn is_end_stream(&self) -> bool {
        self.body().is_end_stream()
    }

    fn size_hint(&self) -> SizeHint {
        self.body().size_hint()
    }
}

impl Body for String {
    type Data = Bytes;
    type Error = Infallible;

    fn poll_frame(
        mut self: Pin<&mut Self>,
        _cx: &mut Context<'_>,
    ) -> Poll<Option<Result<Frame<Self::Data>, Self::Error>>> {
        if !self.is_empty() {
            let s = std::mem::take(&mut *self);
            Poll::Ready(Some(Ok(Frame::data(s.into_bytes().into()))))
        } else {
            Poll::Ready(None)
        }
    }

    fn is_end_stream(&self) -> bool {
        self.is_empty()
    }

    fn size_hint(&self) -> SizeHint {
        SizeHint::with_exact(self.len() as u64)
    }
}

#[cfg(test)]
fn _assert_bounds() {
    fn can_be_trait_object(_: &dyn Body<Data = std::io::Cursor<Vec<u8>>, Error = std::io::Error>) {}
}
