use http::HeaderMap;

/// A frame of any kind related to an HTTP stream (body).
#[derive(Debug)]
pub struct Frame<T> {
    kind: Kind<T>,
}

#[derive(Debug)]
enum Kind<T> {
    // The first two variants are "inlined" since they are undoubtedly
    // the most common. This saves us from having to allocate a
    // boxed trait object for them.
    Data(T),
    // MODEL: boxed (the only change to http-body 1.0.1 in this directory)
    Trailers(Box<HeaderMap>),
    //Unknown(Box<dyn Frameish>),
}

impl<T> Frame<T> {
    /// Create a DATA frame with the provided `Buf`.
    pub fn data(buf: T) -> Self {
        Self {
            kind: Kind::Data(buf),
        }
    }

    /// Create a trailers frame.
    pub fn trailers(map: HeaderMap) -> Self {
        Self {
            kind: Kind::Trailers(Box::new(map)),
        }
    }

    /// Maps this frame's data to a different type.
    pub fn map_data<F, D>(self, f: F) -> Frame<D>
    where
        F: FnOnce(T) -> D,
    {
        match self.kind {
            Kind::Data(data) => Frame {
                kind: Kind::Data(f(data)),
            },
            Kind::Trailers(trailers) => Frame {
                kind: Kind::Trailers(trailers),
            },
        }
    }

    /// Returns whether this is a DATA frame.
    pub fn is_data(&self) -> bool {
        matches!(self.kind, Kind::Data(..))
    }

    /// Consumes self into the buf of the DATA frame.
    ///
    /// Returns an [`Err`] containing the original [`Frame`] when frame is not a DATA frame.
    /// `Frame::is_data` can also be used to determine if the frame is a DATA frame.
    pub fn into_data(self) -> Result<T, Self> {
        match self.kind {
            Kind::Data(data) => Ok(data),
            _ => Err(self),
        }
    }

    /// If this is a DATA frame, returns a reference to it.
    ///
    /// Returns `None` if not a DATA frame.
    pub fn data_ref(&self) -> Option<&T> {
        match self.kind {
            Kind::Data(ref data) => Some(data),
            _ => None,
        }
    }

    /// If this is a DATA frame, returns a mutable reference to it.
    ///
    /// Returns `None` if not a DATA frame.
    pub fn data_mut(&mut self) -> Option<&mut T> {
        match self.kind {
            Kind::Data(ref mut data) => Some(data),
            _ => None,
        }
    }

    /// Returns whether this is a trailers frame.
    pub fn is_trailers(&self) -> bool {
        matches!(self.kind, Kind::Trailers(..))
    }

    /// Consumes self into the buf of the trailers frame.
    ///
    /// Returns an [`Err`] containing the original [`Frame`] when frame is not a trailers frame.
    /// `Frame::is_trailers` can also be used to determine if the frame is a trailers frame.
    pub fn into_trailers(self) -> Result<HeaderMap, Self> {
        match self.kind {
            Kind::Trailers(trailers) => Ok(*trailers),
            _ => Err(self),
        }
    }

    /// If this is a trailers frame, returns a reference to it.
    ///
    /// Returns `None` if not a trailers frame.
    pub fn trailers_ref(&self) -> Option<&HeaderMap> {
        match self.kind {
            Kind::Trailers(ref trailers) => Some(&**trailers),
            _ => None,
        }
    }

    /// If this is a trailers frame, returns a mutable reference to it.
    ///
    /// Returns `None` if not a trailers frame.
    pub fn trailers_mut(&mut self) -> Option<&mut HeaderMap> {
        match self.kind {
            Kind::Trailers(ref mut trailers) => Some(&mut **trailers),
            _ => None,
        }
    }
}
