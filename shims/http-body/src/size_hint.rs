/// A `Body` size hint
///
/// The default implementation returns:
///
/// * 0 for `lower`
/// * `None` for `upper`.
#[derive(Debug, Default, Clone)]
pub struct SizeHint {
    lower: u64,
    upper: Option<u64>,
}

impl SizeHint {
    /// Returns a new `SizeHint` with default values
    #[inline]
    pub fn new() -> SizeHint {
        SizeHint::default()
    }

    /// Returns a new `SizeHint` with both upper and lower bounds set to the
    /// given value.
    #[inline]
    pub fn with_exact(value: u64) -> SizeHint {
        SizeHint {
            lower: value,
            upper: Some(value),
        }
    }

    /// Returns the lower bound of data that the `Body` will yield before
    /// completing.
    #[inline]
    pub fn lower(&self) -> u64 {
        self.lower
    }

    /// Set the value of the `lower` hint.
    ///
    /// # Panics
    ///
    /// The function panics if `value` is greater than `upper`.
    #[inline]
    pub fn set_lower(&mut self, value: u64) {
        assert!(value <= self.upper.unwrap_or(u64::MAX));
        self.lower = value;
    }

    /// Returns the upper bound of data the `Body` will yield before
    /// completing, or `None` if the value is unknown.
    #[inline]
    pub fn upper(&self) -> Option<u64> {
        self.upper
    }

    /// Set the value of the `upper` hint value.
    ///
    /// # Panics
    ///
    /// This function panics if `value` is less than `lower`.
    #[inline]
    pub fn set_upper(&mut self, value: u64) {
        assert!(value >= self.lower, "`value` is less than than `lower`");

        self.upper = Some(value);
    }

    /// Returns the exact size of data that will be yielded **if** the
    /// `lower` and `upper` bounds are equal.
    #[inline]
    pub fn exact(&self) -> Option<u64> {
        if Some(self.lower) == self.upper {
            self.upper
        } else {
            None
        }
    }

    /// Set the value of the `lower` and `upper` bounds to exactly the same.
    #[inline]
    pub fn set_exact(&mut self, value: u64) {
        self.lower = value;
        self.upper = Some(value);
    }
}
