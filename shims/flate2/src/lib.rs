//! Verification MODEL of the `flate2` crate (engine K2 of /verif/DESIGN.md).
//!
//! NOT a compressor. `GzEncoder<W>` is a *marker* wrapper: it forwards every byte it is
//! given to the inner writer unchanged, framed by a 1-byte model header `0x1f` written before
//! the first payload byte (or at finish) and a 1-byte model trailer `0x8b` written on
//! finish/drop. This is enough to decide *which* coding http-serve chose and that the
//! encoder is finished on drop; nothing about real gzip bytes is claimed (C09 is
//! not_applicable).
pub mod model_io;
use model_io::{self as io, Write};

#[derive(Clone, Copy, Debug, PartialEq, Eq)]
pub struct Compression(u32);
impl Compression {
    pub const fn new(level: u32) -> Compression {
        Compression(level)
    }
    pub const fn none() -> Compression {
        Compression(0)
    }
    pub const fn fast() -> Compression {
        Compression(1)
    }
    pub const fn best() -> Compression {
        Compression(9)
    }
    pub fn level(&self) -> u32 {
        self.0
    }
}
impl Default for Compression {
    fn default() -> Compression {
        Compression(6)
    }
}

#[derive(Debug, Default)]
pub struct GzBuilder {
    _p: (),
}
impl GzBuilder {
    pub fn new() -> GzBuilder {
        GzBuilder { _p: () }
    }
    pub fn write<W: Write>(self, w: W, lvl: Compression) -> write::GzEncoder<W> {
        write::GzEncoder::new(w, lvl)
    }
}

pub mod write {
    use super::*;

    #[derive(Debug)]
    pub struct GzEncoder<W: Write> {
        inner: Option<W>,
        level: Compression,
        header_pending: bool,
        finished: bool,
    }

    impl<W: Write> GzEncoder<W> {
        pub fn new(w: W, level: Compression) -> GzEncoder<W> {
            GzEncoder { inner: Some(w), level, header_pending: true, finished: false }
        }
        pub fn get_ref(&self) -> &W {
            self.inner.as_ref().unwrap()
        }
        pub fn get_mut(&mut self) -> &mut W {
            self.inner.as_mut().unwrap()
        }
        /// MODEL-ONLY: the level the encoder was created with.
        pub fn model_level(&self) -> u32 {
            self.level.level()
        }
        fn write_header(&mut self) -> io::Result<()> {
            if self.header_pending {
                let n = self.inner.as_mut().unwrap().write(&[0x1f])?;
                if n == 1 {
                    self.header_pending = false;
                }
            }
            Ok(())
        }
        pub fn try_finish(&mut self) -> io::Result<()> {
            if self.finished {
                return Ok(());
            }
            self.write_header()?;
            if self.header_pending {
                return Err(io::Error::from(io::ErrorKind::WriteZero));
            }
            let n = self.inner.as_mut().unwrap().write(&[0x8b])?;
            if n == 1 {
                self.finished = true;
                Ok(())
            } else {
                Err(io::Error::from(io::ErrorKind::WriteZero))
            }
        }
        pub fn finish(mut self) -> io::Result<W> {
            self.try_finish()?;
            Ok(self.inner.take().unwrap())
        }
    }

    impl<W: Write> Write for GzEncoder<W> {
        fn write(&mut self, buf: &[u8]) -> io::Result<usize> {
            assert!(!self.finished);
            self.write_header()?;
            if self.header_pending {
                return Ok(0);
            }
            self.inner.as_mut().unwrap().write(buf)
        }
        fn flush(&mut self) -> io::Result<()> {
            assert!(!self.finished);
            self.write_header()?;
            self.inner.as_mut().unwrap().flush()
        }
    }

    impl<W: Write> Drop for GzEncoder<W> {
        fn drop(&mut self) {
            if self.inner.is_some() {
                let _ = self.try_finish();
            }
        }
    }
}
