//! MODEL of the part of `std::io` that http-serve's streaming writer uses: the `Write`
//! trait (same provided methods as std), `Error` without boxing / pointer tagging, `ErrorKind`.
//! It lives in this crate because both the `GzEncoder` model and http-serve's own writers
//! must agree on one `Write` trait.

#[derive(Clone, Copy, Debug, PartialEq, Eq)]
pub enum ErrorKind {
    NotFound,
    PermissionDenied,
    ConnectionRefused,
    ConnectionReset,
    ConnectionAborted,
    NotConnected,
    BrokenPipe,
    AlreadyExists,
    WouldBlock,
    InvalidInput,
    InvalidData,
    TimedOut,
    WriteZero,
    Interrupted,
    Unsupported,
    UnexpectedEof,
    OutOfMemory,
    Other,
}

#[derive(Debug)]
pub struct Error {
    kind: ErrorKind,
}

impl Error {
    /// The payload is dropped: only the kind is observable in the model.
    pub fn new<E>(kind: ErrorKind, _error: E) -> Error {
        Error { kind }
    }
    pub fn other<E>(_error: E) -> Error {
        Error { kind: ErrorKind::Other }
    }
    pub fn kind(&self) -> ErrorKind {
        self.kind
    }
}
impl From<ErrorKind> for Error {
    fn from(kind: ErrorKind) -> Error {
        Error { kind }
    }
}
impl std::fmt::Display for Error {
    fn fmt(&self, f: &mut std::fmt::Formatter<'_>) -> std::fmt::Result {
        f.write_str("io error (model)")
    }
}
impl std::error::Error for Error {}

pub type Result<T> = std::result::Result<T, Error>;

pub trait Write {
    fn write(&mut self, buf: &[u8]) -> Result<usize>;
    fn flush(&mut self) -> Result<()>;

    /// Same algorithm as `std::io::Write::write_all`.
    fn write_all(&mut self, mut buf: &[u8]) -> Result<()> {
        while !buf.is_empty() {
            match self.write(buf) {
                Ok(0) => {
                    return Err(Error::from(ErrorKind::WriteZero));
                }
                Ok(n) => buf = &buf[n..],
                Err(ref e) if e.kind() == ErrorKind::Interrupted => {}
                Err(e) => return Err(e),
            }
        }
        Ok(())
    }

    /// Same algorithm as `std::io::Write::write_fmt` (adapter over `write_all`).
    fn write_fmt(&mut self, args: std::fmt::Arguments<'_>) -> Result<()> {
        struct Adapter<'a, T: Write + ?Sized> {
            inner: &'a mut T,
            error: Result<()>,
        }
        impl<T: Write + ?Sized> std::fmt::Write for Adapter<'_, T> {
            fn write_str(&mut self, s: &str) -> std::fmt::Result {
                match self.inner.write_all(s.as_bytes()) {
                    Ok(()) => Ok(()),
                    Err(e) => {
                        self.error = Err(e);
                        Err(std::fmt::Error)
                    }
                }
            }
        }
        let mut output = Adapter { inner: self, error: Ok(()) };
        match std::fmt::write(&mut output, args) {
            Ok(()) => Ok(()),
            Err(..) => {
                if output.error.is_err() {
                    output.error
                } else {
                    Err(Error::new(ErrorKind::Other, "formatter error"))
                }
            }
        }
    }

    fn by_ref(&mut self) -> &mut Self
    where
        Self: Sized,
    {
        self
    }
}

impl<W: Write + ?Sized> Write for &mut W {
    fn write(&mut self, buf: &[u8]) -> Result<usize> {
        (**self).write(buf)
    }
    fn flush(&mut self) -> Result<()> {
        (**self).flush()
    }
}
impl<W: Write + ?Sized> Write for Box<W> {
    fn write(&mut self, buf: &[u8]) -> Result<usize> {
        (**self).write(buf)
    }
    fn flush(&mut self) -> Result<()> {
        (**self).flush()
    }
}
impl Write for Vec<u8> {
    fn write(&mut self, buf: &[u8]) -> Result<usize> {
        self.extend_from_slice(buf);
        Ok(buf.len())
    }
    /// std's `impl Write for Vec<u8>` overrides `write_all` the same way (no retry loop).
    fn write_all(&mut self, buf: &[u8]) -> Result<()> {
        self.extend_from_slice(buf);
        Ok(())
    }
    fn flush(&mut self) -> Result<()> {
        Ok(())
    }
}
