//! Verification MODEL of the `bytes` crate (engine K2 of /verif/DESIGN.md).
//!
//! `Bytes` / `BytesMut` are plain `Vec<u8>`-backed buffers (no vtables, no atomics, no
//! sharing); the `Buf` / `BufMut` traits keep the real contracts for the methods provided.
#![allow(clippy::all)]

use std::fmt;
use std::ops::Deref;

/// Read access to a sequence of bytes with a cursor.
pub trait Buf {
    fn remaining(&self) -> usize;
    fn chunk(&self) -> &[u8];
    fn advance(&mut self, cnt: usize);

    fn has_remaining(&self) -> bool {
        self.remaining() > 0
    }
    fn copy_to_slice(&mut self, dst: &mut [u8]) {
        assert!(self.remaining() >= dst.len());
        let mut off = 0;
        while off < dst.len() {
            let n;
            {
                let src = self.chunk();
                n = std::cmp::min(src.len(), dst.len() - off);
                dst[off..off + n].copy_from_slice(&src[..n]);
            }
            off += n;
            self.advance(n);
        }
    }
    fn get_u8(&mut self) -> u8 {
        assert!(self.remaining() >= 1);
        let r = self.chunk()[0];
        self.advance(1);
        r
    }
    fn copy_to_bytes(&mut self, len: usize) -> Bytes {
        assert!(len <= self.remaining(), "`len` greater than remaining");
        let mut v = vec![0u8; len];
        self.copy_to_slice(&mut v[..]);
        Bytes::from(v)
    }
}

impl<T: Buf + ?Sized> Buf for &mut T {
    fn remaining(&self) -> usize {
        (**self).remaining()
    }
    fn chunk(&self) -> &[u8] {
        (**self).chunk()
    }
    fn advance(&mut self, cnt: usize) {
        (**self).advance(cnt)
    }
}
impl<T: Buf + ?Sized> Buf for Box<T> {
    fn remaining(&self) -> usize {
        (**self).remaining()
    }
    fn chunk(&self) -> &[u8] {
        (**self).chunk()
    }
    fn advance(&mut self, cnt: usize) {
        (**self).advance(cnt)
    }
}
impl Buf for &[u8] {
    fn remaining(&self) -> usize {
        self.len()
    }
    fn chunk(&self) -> &[u8] {
        self
    }
    fn advance(&mut self, cnt: usize) {
        assert!(cnt <= self.len(), "cannot advance past `remaining`");
        *self = &self[cnt..];
    }
}
impl<T: AsRef<[u8]>> Buf for std::io::Cursor<T> {
    fn remaining(&self) -> usize {
        let len = self.get_ref().as_ref().len();
        let pos = self.position();
        if pos >= len as u64 {
            0
        } else {
            len - pos as usize
        }
    }
    fn chunk(&self) -> &[u8] {
        let len = self.get_ref().as_ref().len();
        let pos = self.position();
        if pos >= len as u64 {
            &[]
        } else {
            &self.get_ref().as_ref()[pos as usize..]
        }
    }
    fn advance(&mut self, cnt: usize) {
        let pos = (self.position() as usize).checked_add(cnt).expect("overflow");
        assert!(pos <= self.get_ref().as_ref().len());
        self.set_position(pos as u64);
    }
}

/// Write access.
pub trait BufMut {
    fn remaining_mut(&self) -> usize;
    fn put_slice(&mut self, src: &[u8]);
    fn put_u8(&mut self, n: u8) {
        self.put_slice(&[n])
    }
    fn has_remaining_mut(&self) -> bool {
        self.remaining_mut() > 0
    }
}
impl BufMut for Vec<u8> {
    fn remaining_mut(&self) -> usize {
        isize::MAX as usize - self.len()
    }
    fn put_slice(&mut self, src: &[u8]) {
        self.extend_from_slice(src)
    }
}

#[derive(Clone, Debug)]
enum Repr {
    Static(&'static [u8]),
    Owned(Vec<u8>),
}

/// Immutable byte buffer with a read cursor.
#[derive(Clone)]
pub struct Bytes {
    repr: Repr,
    pos: usize,
}

impl Bytes {
    pub const fn new() -> Bytes {
        Bytes { repr: Repr::Static(&[]), pos: 0 }
    }
    pub const fn from_static(b: &'static [u8]) -> Bytes {
        Bytes { repr: Repr::Static(b), pos: 0 }
    }
    pub fn copy_from_slice(b: &[u8]) -> Bytes {
        Bytes { repr: Repr::Owned(b.to_vec()), pos: 0 }
    }
    fn all(&self) -> &[u8] {
        match &self.repr {
            Repr::Static(s) => s,
            Repr::Owned(v) => &v[..],
        }
    }
    fn as_slice(&self) -> &[u8] {
        &self.all()[self.pos..]
    }
    pub fn len(&self) -> usize {
        self.all().len() - self.pos
    }
    pub fn is_empty(&self) -> bool {
        self.len() == 0
    }
    pub fn slice(&self, r: impl std::ops::RangeBounds<usize>) -> Bytes {
        use std::ops::Bound::*;
        let len = self.len();
        let b = match r.start_bound() {
            Included(&n) => n,
            Excluded(&n) => n + 1,
            Unbounded => 0,
        };
        let e = match r.end_bound() {
            Included(&n) => n + 1,
            Excluded(&n) => n,
            Unbounded => len,
        };
        assert!(b <= e && e <= len, "range out of bounds");
        Bytes::copy_from_slice(&self.as_slice()[b..e])
    }
    pub fn split_to(&mut self, at: usize) -> Bytes {
        assert!(at <= self.len(), "split_to out of bounds");
        let head = Bytes::copy_from_slice(&self.as_slice()[..at]);
        self.pos += at;
        head
    }
    pub fn split_off(&mut self, at: usize) -> Bytes {
        assert!(at <= self.len(), "split_off out of bounds");
        let tail = Bytes::copy_from_slice(&self.as_slice()[at..]);
        let head = self.as_slice()[..at].to_vec();
        *self = Bytes::from(head);
        tail
    }
    pub fn truncate(&mut self, len: usize) {
        if len < self.len() {
            let head = self.as_slice()[..len].to_vec();
            *self = Bytes::from(head);
        }
    }
    pub fn clear(&mut self) {
        *self = Bytes::new()
    }
}

impl Default for Bytes {
    fn default() -> Bytes {
        Bytes::new()
    }
}
impl Buf for Bytes {
    fn remaining(&self) -> usize {
        self.len()
    }
    fn chunk(&self) -> &[u8] {
        self.as_slice()
    }
    fn advance(&mut self, cnt: usize) {
        assert!(cnt <= self.len(), "cannot advance past `remaining`");
        self.pos += cnt;
    }
    fn copy_to_bytes(&mut self, len: usize) -> Bytes {
        self.split_to(len)
    }
}
impl Deref for Bytes {
    type Target = [u8];
    fn deref(&self) -> &[u8] {
        self.as_slice()
    }
}
impl AsRef<[u8]> for Bytes {
    fn as_ref(&self) -> &[u8] {
        self.as_slice()
    }
}
impl std::borrow::Borrow<[u8]> for Bytes {
    fn borrow(&self) -> &[u8] {
        self.as_slice()
    }
}
impl From<&'static [u8]> for Bytes {
    fn from(b: &'static [u8]) -> Bytes {
        Bytes::from_static(b)
    }
}
impl From<&'static str> for Bytes {
    fn from(b: &'static str) -> Bytes {
        Bytes::from_static(b.as_bytes())
    }
}
impl From<Vec<u8>> for Bytes {
    fn from(v: Vec<u8>) -> Bytes {
        Bytes { repr: Repr::Owned(v), pos: 0 }
    }
}
impl From<Box<[u8]>> for Bytes {
    fn from(v: Box<[u8]>) -> Bytes {
        Bytes::from(v.into_vec())
    }
}
impl From<String> for Bytes {
    fn from(v: String) -> Bytes {
        Bytes::from(v.into_bytes())
    }
}
impl From<Bytes> for Vec<u8> {
    fn from(b: Bytes) -> Vec<u8> {
        b.as_slice().to_vec()
    }
}
impl From<BytesMut> for Bytes {
    fn from(b: BytesMut) -> Bytes {
        b.freeze()
    }
}
impl fmt::Debug for Bytes {
    fn fmt(&self, f: &mut fmt::Formatter<'_>) -> fmt::Result {
        fmt::Debug::fmt(self.as_slice(), f)
    }
}
impl PartialEq for Bytes {
    fn eq(&self, o: &Bytes) -> bool {
        self.as_slice() == o.as_slice()
    }
}
impl Eq for Bytes {}
impl PartialOrd for Bytes {
    fn partial_cmp(&self, o: &Bytes) -> Option<std::cmp::Ordering> {
        self.as_slice().partial_cmp(o.as_slice())
    }
}
impl Ord for Bytes {
    fn cmp(&self, o: &Bytes) -> std::cmp::Ordering {
        self.as_slice().cmp(o.as_slice())
    }
}
impl std::hash::Hash for Bytes {
    fn hash<H: std::hash::Hasher>(&self, h: &mut H) {
        self.as_slice().hash(h)
    }
}
impl PartialEq<[u8]> for Bytes {
    fn eq(&self, o: &[u8]) -> bool {
        self.as_slice() == o
    }
}
impl PartialEq<Bytes> for [u8] {
    fn eq(&self, o: &Bytes) -> bool {
        self == o.as_slice()
    }
}
impl<'a> PartialEq<&'a [u8]> for Bytes {
    fn eq(&self, o: &&'a [u8]) -> bool {
        self.as_slice() == *o
    }
}
impl PartialEq<str> for Bytes {
    fn eq(&self, o: &str) -> bool {
        self.as_slice() == o.as_bytes()
    }
}
impl<'a> PartialEq<&'a str> for Bytes {
    fn eq(&self, o: &&'a str) -> bool {
        self.as_slice() == o.as_bytes()
    }
}
impl PartialEq<Vec<u8>> for Bytes {
    fn eq(&self, o: &Vec<u8>) -> bool {
        self.as_slice() == &o[..]
    }
}
impl<const N: usize> PartialEq<[u8; N]> for Bytes {
    fn eq(&self, o: &[u8; N]) -> bool {
        self.as_slice() == &o[..]
    }
}
impl<'a, const N: usize> PartialEq<&'a [u8; N]> for Bytes {
    fn eq(&self, o: &&'a [u8; N]) -> bool {
        self.as_slice() == &o[..]
    }
}
impl IntoIterator for Bytes {
    type Item = u8;
    type IntoIter = std::vec::IntoIter<u8>;
    fn into_iter(self) -> Self::IntoIter {
        self.as_slice().to_vec().into_iter()
    }
}
impl<'a> IntoIterator for &'a Bytes {
    type Item = &'a u8;
    type IntoIter = std::slice::Iter<'a, u8>;
    fn into_iter(self) -> Self::IntoIter {
        self.as_slice().iter()
    }
}
impl FromIterator<u8> for Bytes {
    fn from_iter<T: IntoIterator<Item = u8>>(it: T) -> Self {
        Bytes::from(it.into_iter().collect::<Vec<u8>>())
    }
}

/// Growable byte buffer. `with_capacity(n)` + `fmt::Write` keep the real contract that
/// writes beyond the capacity simply grow the buffer (they never fail).
#[derive(Clone, Default, PartialEq, Eq)]
pub struct BytesMut {
    v: Vec<u8>,
}

impl BytesMut {
    pub fn new() -> BytesMut {
        BytesMut { v: Vec::new() }
    }
    pub fn with_capacity(n: usize) -> BytesMut {
        BytesMut { v: Vec::with_capacity(n) }
    }
    pub fn len(&self) -> usize {
        self.v.len()
    }
    pub fn is_empty(&self) -> bool {
        self.v.is_empty()
    }
    pub fn capacity(&self) -> usize {
        self.v.capacity()
    }
    pub fn freeze(self) -> Bytes {
        Bytes::from(self.v)
    }
    pub fn reserve(&mut self, n: usize) {
        self.v.reserve(n)
    }
    pub fn extend_from_slice(&mut self, s: &[u8]) {
        self.v.extend_from_slice(s)
    }
    pub fn clear(&mut self) {
        self.v.clear()
    }
    pub fn truncate(&mut self, n: usize) {
        self.v.truncate(n)
    }
    pub fn split(&mut self) -> BytesMut {
        BytesMut { v: std::mem::take(&mut self.v) }
    }
    pub fn split_to(&mut self, at: usize) -> BytesMut {
        let tail = self.v.split_off(at);
        let head = std::mem::replace(&mut self.v, tail);
        BytesMut { v: head }
    }
}
impl Deref for BytesMut {
    type Target = [u8];
    fn deref(&self) -> &[u8] {
        &self.v[..]
    }
}
impl std::ops::DerefMut for BytesMut {
    fn deref_mut(&mut self) -> &mut [u8] {
        &mut self.v[..]
    }
}
impl AsRef<[u8]> for BytesMut {
    fn as_ref(&self) -> &[u8] {
        &self.v[..]
    }
}
impl BufMut for BytesMut {
    fn remaining_mut(&self) -> usize {
        usize::MAX - self.v.len()
    }
    fn put_slice(&mut self, src: &[u8]) {
        self.v.extend_from_slice(src)
    }
}
impl Buf for BytesMut {
    fn remaining(&self) -> usize {
        self.v.len()
    }
    fn chunk(&self) -> &[u8] {
        &self.v[..]
    }
    fn advance(&mut self, cnt: usize) {
        assert!(cnt <= self.v.len());
        self.v.drain(..cnt);
    }
}
impl fmt::Write for BytesMut {
    fn write_str(&mut self, s: &str) -> fmt::Result {
        // Real BytesMut: succeeds iff remaining_mut() >= s.len(), which is practically always.
        self.v.extend_from_slice(s.as_bytes());
        Ok(())
    }
}
impl fmt::Debug for BytesMut {
    fn fmt(&self, f: &mut fmt::Formatter<'_>) -> fmt::Result {
        fmt::Debug::fmt(&self.v[..], f)
    }
}
impl From<&[u8]> for BytesMut {
    fn from(s: &[u8]) -> BytesMut {
        BytesMut { v: s.to_vec() }
    }
}
impl From<&str> for BytesMut {
    fn from(s: &str) -> BytesMut {
        BytesMut { v: s.as_bytes().to_vec() }
    }
}
impl From<BytesMut> for Vec<u8> {
    fn from(b: BytesMut) -> Vec<u8> {
        b.v
    }
}
pub mod buf {
    pub use super::{Buf, BufMut};
}
