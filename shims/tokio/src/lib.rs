//! Verification MODEL of the `tokio` crate (engine K2 of /verif/DESIGN.md): only the two
//! task functions http-serve calls, executed inline.
pub mod task {
    use std::future::Future;
    use std::pin::Pin;
    use std::task::{Context, Poll};

    /// Runs the closure right here (the real one also does, after telling the scheduler).
    pub fn block_in_place<F, R>(f: F) -> R
    where
        F: FnOnce() -> R,
    {
        f()
    }

    #[derive(Debug)]
    pub struct JoinError(());
    impl std::fmt::Display for JoinError {
        fn fmt(&self, f: &mut std::fmt::Formatter<'_>) -> std::fmt::Result {
            f.write_str("task failed")
        }
    }
    impl std::error::Error for JoinError {}

    pub struct JoinHandle<T>(Option<T>);
    impl<T> Unpin for JoinHandle<T> {}
    impl<T> Future for JoinHandle<T> {
        type Output = Result<T, JoinError>;
        fn poll(mut self: Pin<&mut Self>, _cx: &mut Context<'_>) -> Poll<Self::Output> {
            Poll::Ready(Ok(self.0.take().expect("polled after completion")))
        }
    }

    /// Runs the closure immediately; the handle is ready at once.
    pub fn spawn_blocking<F, R>(f: F) -> JoinHandle<R>
    where
        F: FnOnce() -> R + Send + 'static,
        R: Send + 'static,
    {
        JoinHandle(Some(f()))
    }
}
