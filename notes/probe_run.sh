#!/bin/bash
# usage: run.sh <harness> <timeout_s> [extra cargo kani args...]
H=$1; t=$2; shift 2; h=${H##*::}
cd /tmp/hsp
mkdir -p logs
start=$(date +%s)
( ulimit -v 16000000; CARGO_NET_OFFLINE=true timeout $t cargo kani --harness "$H" --exact --target-dir /tmp/hsp/tgt-$h "$@" > logs/$h.log 2>&1 )
rc=$?
end=$(date +%s)
echo "== $h rc=$rc wall=$((end-start))s"
grep -E 'VERIFICATION|Status: (FAILURE|ERROR|UNREACHABLE|UNDETERMINED)|Runtime decision|SAT checker|Verification Time|error(\[|:)|Stub|unwinding|\*\* [0-9]+ of|Failed Checks|SATISFIED|UNSATISFIABLE' logs/$h.log | head -${LINES_MAX:-25}
pkill -P $$ cbmc 2>/dev/null
rm -rf /tmp/hsp/tgt-$h
