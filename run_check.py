#!/usr/bin/env python3
"""Entry point of the verification machinery.

    run_check.py <Cxx> [--tier quick|thorough]      decide one property on /repo's current tree
    run_check.py --replay <scenario.json>           re-run a recorded counterexample natively

Exit status: 0 = property held on everything explored (KNOWN-FINDING lines allowed),
1 = violation (a line `VIOLATION property=<id> replay=<path>` is printed), 2 = inconclusive
(timeout, out of memory, build failure, vacuous harness, non-reproducing counterexample).
"""
import argparse
import hashlib
import json
import os
import re
import sys
import time

sys.path.insert(0, os.path.dirname(os.path.abspath(__file__)))
from vlib import kani, props, replay, scratch  # noqa: E402

VERIF = scratch.VERIF
# VERIF_OUT: developer switch for runs against a scratch tree (VERIF_REPO), so that they do not
# overwrite the evidence of the registered checks, which always run against /repo.
OUT = os.environ.get("VERIF_OUT", VERIF)
EVIDENCE = os.path.join(OUT, "evidence")
REPLAYS = os.path.join(OUT, "replays")
KNOWN = os.path.join(VERIF, "known_findings.json")


def load_known():
    try:
        return json.load(open(KNOWN))
    except FileNotFoundError:
        return {"findings": [], "fixed": []}


def known_match(known, prop, scenario, violation):
    """A known finding matches by property and by a regex over the canonical one-line rendering
    of (scenario role, violation text); it never matches by property alone."""
    text = violation.get("what", "") + " || " + json.dumps(scenario, sort_keys=True)
    for f in known.get("findings", []):
        if f.get("property") == prop and re.search(f["match"], text):
            return f
    return None


def write_evidence(prop, tier, seed, level, coverage, assumptions, wall, violations):
    os.makedirs(EVIDENCE, exist_ok=True)
    ev = {
        "property_id": prop,
        "tier": tier,
        "seed": seed,
        "level": level,
        "coverage": coverage,
        "assumptions": assumptions,
        "wall_s": round(wall, 1),
        "violations": violations,
    }
    with open(os.path.join(EVIDENCE, prop + ".json"), "w") as f:
        json.dump(ev, f, indent=1, sort_keys=True)
        f.write("\n")


def tags_of(desc, default_tags):
    t = set(re.findall(r"\bC\d\d\b", desc))
    return t if t else set(default_tags)


def do_replay(path):
    sc = json.load(open(path))
    scenario = sc.get("scenario", sc)
    log = open(os.devnull, "w")
    rp = replay.Replayer(log)
    try:
        out = {}
        for profile in ("debug", "release"):
            out[profile] = rp.run(scenario, profile)
            print("[%s] violations: %s" % (profile, json.dumps(out[profile].get("violations", out[profile].get("error")))))
        bad = any(o.get("violations") for o in out.values())
        return 1 if bad else 0
    finally:
        rp.cleanup()


def main():
    ap = argparse.ArgumentParser()
    ap.add_argument("prop", nargs="?")
    ap.add_argument("--tier", default=os.environ.get("VERIF_TIER", "quick"))
    ap.add_argument("--replay")
    ap.add_argument("--keep", action="store_true")
    ap.add_argument("--jobs", type=int, default=int(os.environ.get("VERIF_JOBS", "16")))
    a = ap.parse_args()
    if a.replay:
        sys.exit(do_replay(a.replay))
    prop = a.prop
    tier = "thorough" if a.tier == "thorough" else "quick"
    seed = int(os.environ.get("VERIF_SEED", "0") or 0)
    if prop not in props.PROPS:
        print("unknown or not-applicable property", prop)
        sys.exit(2)
    t0 = time.time()
    spec = props.PROPS[prop]
    known = load_known()
    logroot = os.path.join(scratch.scratch_root(), "hs-verif-logs", "%s-%s-%d" % (prop, tier, os.getpid()))
    os.makedirs(logroot, exist_ok=True)
    mainlog = open(os.path.join(logroot, "main.log"), "w")

    units = spec["units"](tier, seed)
    all_results = []  # (unit, HarnessResult)
    inconclusive = []
    workspaces = []
    digest = None
    jobs = []
    try:
        for u in units:
            ws = scratch.Workspace(
                u["config"], u["inject"], features=u.get("features", ()), gen=u.get("gen_fn") and (lambda hd, u=u: u["gen_fn"](hd, tier)), keep=a.keep,
            )
            workspaces.append(ws)
            u["ws"] = ws
            digest = ws.digest
            if not ws.prepare_lock(mainlog):
                inconclusive.append("cargo could not resolve the scratch workspace offline")
                continue
            u["meta"] = u["load_meta"](ws.hdir) if u.get("load_meta") else None
            hs = u["harnesses"](tier, u["meta"])
            u["hs"] = hs
            seed_target = os.path.join(scratch.CACHE, "kani-target-" + u["config"] + ("-" + "-".join(u.get("features", ())) if u.get("features") else ""))
            for h in hs:
                jobs.append(dict(ws=ws, harness=h, timeout=u.get("timeout", {}).get(tier, 900), extra=u.get("extra", ()),
                                 mem_kb=u.get("mem_kb", 24_000_000), weight=(u["weight_of"](h) if u.get("weight_of") else u.get("weight", 2)), seed_target=seed_target, unit=u))
        res = kani.run_pool(jobs, os.path.join(logroot, "kani"), capacity=a.jobs)
        for j in jobs:
            all_results.append((j["unit"], res[(id(j["ws"]), j["harness"])]))
    except RuntimeError as e:
        inconclusive.append("workspace: %s" % e)

    # ---- classify
    relevant_fail = []  # (unit, result, [failed checks relevant to prop])
    other_fail = []
    n_checks = 0
    n_cover_sat = 0
    n_cover_unsat = []
    solver_time = 0.0
    for u, r in all_results:
        n_checks += r.checks_total
        solver_time += r.time_s or 0.0
        for c in r.covers:
            if c[1] == "SATISFIED":
                n_cover_sat += 1
            elif r.status == "SUCCESSFUL":
                # (in a harness with a failed assertion the paths behind it end there: an
                # unreachable cover is expected and the failure itself is what gets reported)
                n_cover_unsat.append("%s: %s (%s)" % (r.name, c[0], c[1]))
        if r.status == "SUCCESSFUL":
            continue
        if r.status == "FAILED":
            ha = [f for f in r.failed if "HARNESS-ASSUMPTION" in f[1] or "model capacity" in f[1] or "http model:" in f[1]]
            if ha:
                inconclusive.append("%s: a harness/model assumption does not hold on this tree: %s" % (r.name, ha[0][1][:160]))
            # An assertion that fails ends its path, so it can mask a later assertion that carries
            # this property's tag: every failure is replayed natively and the replayer's own
            # oracles decide which property is violated. Only failures tagged with THIS property
            # that do not reproduce make the run inconclusive.
            rel = [f for f in r.failed if f not in ha]
            tagged = [f for f in rel if prop in tags_of(f[1], u.get("panic_tags", ["C13"]))]
            if rel:
                relevant_fail.append((u, r, rel, bool(tagged)))
            if not tagged:
                other_fail.append((r.name, [f[1] for f in r.failed][:4]))
            continue
        inconclusive.append("%s: %s %s" % (r.name, r.status, r.reason[:300]))

    violations = []  # confirmed: (scenario, native violation, replay path)
    known_hits = []
    unconfirmed = []
    if relevant_fail:
        rp = replay.Replayer(mainlog)
        try:
            seen = set()
            for u, r, rel, is_tagged in relevant_fail:
                short = r.name.split("::")[-1]
                pbs = r.playbacks or []
                if not pbs:
                    if not is_tagged:
                        continue
                    unconfirmed.append("%s: failed checks %s but no concrete playback was produced" % (r.name, [f[1] for f in rel][:3]))
                    continue
                confirmed_here = False
                for vals in pbs:
                    try:
                        scn = u["decode"](short, vals, u.get("meta"))
                    except Exception as e:  # malformed vector
                        scn = None
                        mainlog.write("decode error %s: %s\n" % (r.name, e))
                    if scn is None:
                        continue
                    if isinstance(scn, list):
                        scns = scn
                    else:
                        scns = [scn]
                    for scn in scns:
                      key = json.dumps(scn, sort_keys=True)
                      if key in seen:
                        confirmed_here = confirmed_here or key in {json.dumps(v[0], sort_keys=True) for v in violations}
                        continue
                      seen.add(key)
                      outs = {p: rp.run(scn, p) for p in ("debug", "release")}
                      for profile, out in outs.items():
                        for nv in out.get("violations", []) or []:
                            if prop in nv.get("properties", [nv.get("property")]):
                                k = known_match(known, prop, scn, nv)
                                if k:
                                    known_hits.append((k, nv))
                                else:
                                    violations.append((scn, nv, profile, r.name, [f[1] for f in rel]))
                                confirmed_here = True
                        if out.get("error"):
                            mainlog.write("replay error (%s) %s: %s\n" % (profile, r.name, out["error"]))
                if not confirmed_here and is_tagged:
                    unconfirmed.append(
                        "%s: solver counterexample for %s did not reproduce as a %s violation on the real build"
                        % (r.name, [f[1] for f in rel][:3], prop)
                    )
        finally:
            rp.cleanup()

    for ws in workspaces:
        ws.cleanup()

    # ---- report
    wall = time.time() - t0
    status = 0
    out_lines = []
    replay_paths = []
    if violations:
        status = 1
        os.makedirs(REPLAYS, exist_ok=True)
        done = set()
        for scn, nv, profile, hname, hdesc in violations:
            h = hashlib.sha256(json.dumps(scn, sort_keys=True).encode()).hexdigest()[:12]
            path = os.path.join(REPLAYS, "%s-%s.json" % (prop, h))
            if path in done:
                continue
            done.add(path)
            with open(path, "w") as f:
                json.dump({"property": prop, "scenario": scn, "violation": nv, "profile": profile, "harness": hname, "solver_failed_checks": hdesc}, f, indent=1)
            replay_paths.append(path)
            out_lines.append("VIOLATION property=%s replay=%s" % (prop, path))
            out_lines.append("  what: %s" % nv.get("what"))
    for k, nv in {(json.dumps(k, sort_keys=True), nv.get("what")) for k, nv in known_hits}:
        kk = json.loads(k)
        out_lines.append("KNOWN-FINDING: property=%s %s" % (prop, kk.get("what", nv)))
    if status == 0 and (inconclusive or unconfirmed):
        status = 2
    if status == 0 and n_cover_unsat:
        status = 2
        inconclusive.append("vacuity: cover(s) not satisfied: %s" % n_cover_unsat[:5])

    samples = spec.get("samples", lambda units: [])(units)
    coverage = {
        "evaluations": n_checks,
        "distinct_nontrivial": n_cover_sat,
        "rule": "evaluations = solver-discharged checks (assertions, arithmetic-overflow, bounds, unwrap and unwinding "
                "assertions) summed over all harnesses; distinct_nontrivial = kani::cover! witnesses the solver found "
                "SATISFIED (each marks a distinct class of behaviour reached: status class, terminal kind, range shape)",
        "samples": samples[:12] or [r.name for _, r in all_results][:12],
        "explanation": spec["explanation"],
        "engine": "Kani 0.68.0 / CBMC 6.11.0 (bit-precise SAT over the compiled MIR of /repo's current src/)",
        "source_digest_sha256": digest,
        "harnesses": [r.to_json() for _, r in all_results],
        "functions_encoded": spec.get("functions", []),
        "bounds": spec.get("bounds", {}).get(tier, spec.get("bounds", {})),
        "outside_the_claim": spec.get("outside", []),
        "queries_discharged": n_checks,
        "solver_time_s": round(solver_time, 1),
        "harness_failures_attributed_to_other_properties": other_fail[:10],
        "inconclusive": inconclusive[:10],
        "unconfirmed_counterexamples": unconfirmed[:10],
        "replays": replay_paths,
        "exhaustive": False,
    }
    write_evidence(prop, tier, seed, "model_checking", coverage, spec.get("assumptions", []), wall, len(replay_paths))
    for l in out_lines:
        print(l)
    print(
        "%s tier=%s: %d harnesses, %d checks discharged, %d covers satisfied, solver %.0fs, wall %.0fs -> %s"
        % (prop, tier, len(all_results), n_checks, n_cover_sat, solver_time, wall,
           {0: "HOLDS within bounds", 1: "VIOLATION", 2: "INCONCLUSIVE"}[status])
    )
    for m in (inconclusive + unconfirmed)[:10]:
        print("  inconclusive:", m)
    if other_fail:
        print("  note: harness failures attributed to other properties:", other_fail[:5])
    print("  logs:", logroot)
    sys.exit(status)


if __name__ == "__main__":
    main()
