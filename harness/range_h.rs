// Kani harnesses for src/range.rs (engine K1: real crate, real dependencies).
// Injected by the runner into a scratch copy of src/range.rs as
//   #[cfg(kani)] #[path = ".../harness/range_h.rs"] mod verif_h;
// so `super::parse` is the real, private function.
//
// Input model: the header *text* is one of a generated family of concrete skeleton strings
// (range_gen.rs, produced by vlib/gen_range.py on every run); every *number* in the text is a
// free 64-bit value, because `<u64 as FromStr>::from_str` is stubbed: when it is handed one
// of the placeholder tokens it returns the scripted symbolic value (or a parse error =
// "digit string does not fit in u64"); on any other text it falls back to an ordinary
// decimal parse, so a mutant that slices the text wrongly still sees what the real parser
// would have seen.
#![allow(dead_code, unused_imports, static_mut_refs)]

use super::*;

#[path = "oracle.rs"]
mod oracle;
use oracle::Spec;

pub const MAXN: usize = 6;
pub const MAXR: usize = 3;
pub const PH: [&str; MAXN] = ["101", "202", "303", "404", "505", "606"];

static mut NUMS: [u64; MAXN] = [0; MAXN];
static mut OKS: [bool; MAXN] = [true; MAXN];

fn pie() -> std::num::ParseIntError {
    // u8's parser is not stubbed.
    match u8::from_str("x") {
        Err(e) => e,
        Ok(_) => unreachable!(),
    }
}

fn bytes_eq(a: &[u8], b: &[u8]) -> bool {
    if a.len() != b.len() {
        return false;
    }
    let mut i = 0;
    while i < a.len() {
        if a[i] != b[i] {
            return false;
        }
        i += 1;
    }
    true
}

/// Stub for `<u64 as FromStr>::from_str`.
pub fn stub_u64_from_str(s: &str) -> Result<u64, std::num::ParseIntError> {
    let b = s.as_bytes();
    let mut k = 0;
    while k < MAXN {
        if bytes_eq(b, PH[k].as_bytes()) {
            return unsafe {
                if OKS[k] {
                    Ok(NUMS[k])
                } else {
                    Err(pie())
                }
            };
        }
        k += 1;
    }
    // Not a placeholder: behave like the real parser on this (concrete) text.
    if b.is_empty() {
        return Err(pie());
    }
    let mut i = 0;
    if b[0] == b'+' {
        i = 1;
        if b.len() == 1 {
            return Err(pie());
        }
    }
    let mut v: u64 = 0;
    while i < b.len() {
        let c = b[i];
        if c < b'0' || c > b'9' {
            return Err(pie());
        }
        v = match v.checked_mul(10).and_then(|x| x.checked_add((c - b'0') as u64)) {
            Some(x) => x,
            None => return Err(pie()),
        };
        i += 1;
    }
    Ok(v)
}

pub struct Sc {
    pub sk: u16,
    pub len: u64,
    pub nums: [u64; MAXN],
    pub oks: [bool; MAXN],
}

/// Draws the whole scenario up front, in the fixed order documented in the SCENARIO line of
/// range_gen.rs (the runner decodes concrete-playback vectors with it).
pub fn draw() -> Sc {
    let sk: u16 = kani::any();
    let len: u64 = kani::any();
    let mut nums = [0u64; MAXN];
    let mut oks = [true; MAXN];
    let mut i = 0;
    while i < MAXN {
        nums[i] = kani::any();
        oks[i] = kani::any();
        i += 1;
    }
    unsafe {
        NUMS = nums;
        OKS = oks;
    }
    Sc { sk, len, nums, oks }
}

fn num(sc: &Sc, k: usize) -> Option<u64> {
    if sc.oks[k] {
        Some(sc.nums[k])
    } else {
        None
    }
}

#[derive(Clone, Copy)]
pub enum Form {
    FL(usize, usize),
    Open(usize),
    Suf(usize),
}

fn to_spec(sc: &Sc, f: Form) -> Spec {
    match f {
        Form::FL(a, b) => Spec::FirstLast(num(sc, a), num(sc, b)),
        Form::Open(a) => Spec::From(num(sc, a)),
        Form::Suf(a) => Spec::Suffix(num(sc, a)),
    }
}

/// Runs the real parser on one skeleton and compares with the RFC model.
pub fn check(sc: &Sc, text: &'static str, forms: &[Form]) {
    let hv = HeaderValue::from_static(text);
    let got = parse(Some(&hv), sc.len);

    // Universal (also for len == 0, ungrammatical first > last, unparseable numbers):
    // no panic (Kani's checks), and every returned range is non-empty and inside the entity.
    if let ResolvedRanges::Satisfiable(ref v) = got {
        assert!(!v.is_empty(), "C03: Satisfiable with no ranges");
        assert!(v.len() <= forms.len(), "C03: more ranges than specs");
        let mut i = 0;
        while i < MAXR {
            if i < v.len() {
                assert!(v[i].start < v[i].end, "C03/C02: empty or inverted range returned");
                assert!(v[i].end <= sc.len, "C03/C02: range beyond the entity");
            }
            i += 1;
        }
    }

    let mut all_parse = true;
    let mut grammatical = true;
    let mut i = 0;
    while i < forms.len() {
        let s = to_spec(sc, forms[i]);
        if !oracle::spec_parseable(s) {
            all_parse = false;
        }
        if !oracle::spec_grammatical(s) {
            grammatical = false;
        }
        i += 1;
    }
    if !all_parse {
        // A number beyond 64 bits: the implementation ignores the header. Nothing more than
        // "does not fail" is required by the property.
        kani::cover!(got == ResolvedRanges::None, "unparseable number => ignored");
        return;
    }
    if !grammatical || sc.len == 0 {
        return;
    }

    // The RFC resolution, in request order.
    let mut exp: [(u64, u64); MAXR] = [(0, 0); MAXR];
    let mut n_exp = 0;
    let mut i = 0;
    while i < forms.len() {
        if let Some(r) = oracle::resolve_spec(to_spec(sc, forms[i]), sc.len) {
            exp[n_exp] = r;
            n_exp += 1;
        }
        i += 1;
    }
    match got {
        ResolvedRanges::None => assert!(false, "C03: grammatical bytes= range set was ignored"),
        ResolvedRanges::NotSatisfiable => {
            assert!(n_exp == 0, "C03: satisfiable range set answered as unsatisfiable")
        }
        ResolvedRanges::Satisfiable(ref v) => {
            assert!(v.len() == n_exp, "C03: wrong number of satisfiable ranges");
            let mut i = 0;
            while i < MAXR {
                if i < n_exp {
                    assert!(
                        v[i].start == exp[i].0 && v[i].end == exp[i].1,
                        "C03: range differs from RFC 7233 resolution"
                    );
                }
                i += 1;
            }
        }
    }
    kani::cover!(n_exp == 0, "none satisfiable");
    kani::cover!(n_exp == forms.len(), "all satisfiable");
}

/// Concrete near-miss / boundary texts with the REAL integer parser: `expect_ignored`
/// texts must resolve to `None`; the others are compared with the model on concrete numbers.
pub fn check_lex(len: u64, text: &'static [u8], ignored: bool, specs: &[Spec]) {
    // static bytes (the generator only emits byte strings the http crate accepts as values);
    // a heap copy would make every later read symbolic for the model checker.
    let hv = HeaderValue::model_from_static_bytes(text);
    let got = parse(Some(&hv), len);
    if let ResolvedRanges::Satisfiable(ref v) = got {
        assert!(!v.is_empty());
        assert!(v.len() <= MAXR);
        let mut i = 0;
        while i < MAXR {
            if i < v.len() {
                assert!(v[i].start < v[i].end && v[i].end <= len, "C03/C02: empty, inverted or out-of-bounds range returned");
            }
            i += 1;
        }
    }
    if ignored {
        assert!(got == ResolvedRanges::None, "C03: out-of-grammar Range header was not ignored");
        return;
    }
    if len == 0 {
        return;
    }
    let mut all_parse = true;
    let mut i = 0;
    while i < specs.len() {
        if !oracle::spec_parseable(specs[i]) {
            all_parse = false;
        }
        i += 1;
    }
    if !all_parse {
        return;
    }
    let mut exp: [(u64, u64); MAXR] = [(0, 0); MAXR];
    let mut n_exp = 0;
    let mut i = 0;
    while i < specs.len() {
        if let Some(r) = oracle::resolve_spec(specs[i], len) {
            exp[n_exp] = r;
            n_exp += 1;
        }
        i += 1;
    }
    match got {
        ResolvedRanges::None => assert!(false, "C03: grammatical bytes= range set was ignored"),
        ResolvedRanges::NotSatisfiable => assert!(n_exp == 0, "C03: satisfiable set answered 416"),
        ResolvedRanges::Satisfiable(ref v) => {
            assert!(v.len() == n_exp, "C03: wrong number of satisfiable ranges");
            let mut i = 0;
            while i < MAXR {
                if i < n_exp {
                    assert!(v[i].start == exp[i].0 && v[i].end == exp[i].1, "C03: range differs from RFC");
                }
                i += 1;
            }
        }
    }
}

/// Stub for `core::slice::memchr::memchr` (the SWAR implementation branches on pointer
/// alignment, which is not concrete under the model checker); same contract, naive loop.
pub fn naive_memchr(x: u8, text: &[u8]) -> Option<usize> {
    let mut i = 0;
    while i < text.len() {
        if text[i] == x {
            return Some(i);
        }
        i += 1;
    }
    None
}

/// Absent header.
#[kani::proof]
#[kani::unwind(4)]
fn range_absent() {
    let len: u64 = kani::any();
    assert!(parse(None, len) == ResolvedRanges::None, "C03: absent Range header not resolved to None");
}

#[path = "range_gen.rs"]
mod gen;
