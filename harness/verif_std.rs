// MODEL of the std items src/chunker.rs and src/gzip.rs import (engine K2, "std model").
// The runner redirects exactly these `use` lines, under cfg(kani), in its scratch copy:
//     use std::collections::VecDeque;      -> crate::verif_std::VecDeque
//     use std::sync::{Arc, Mutex};         -> crate::verif_std::{Arc, Mutex}
//     use std::io::{self, Write};          -> crate::verif_std::io::{self, Write}
// Every function body of the crate stays as it is in /repo.
//
// * Mutex: a cell with a `locked` flag. `lock()` on a held mutex is a self-deadlock and is
//   reported as an assertion failure. Releasing the guard is a *scheduling point*: the
//   harness may install a hook that runs consumer/producer steps of the other party there
//   (that is how interleavings "at lock and wake granularity" are explored without threads).
// * Arc: non-atomic reference count (the model is single-threaded).
// * VecDeque: inline fixed-capacity array queue (QCAP elements).
// * io: see shims/flate2/src/model_io.rs.
#![allow(dead_code)]

use std::cell::{Cell, UnsafeCell};
use std::ops::{Deref, DerefMut};

pub use flate2::model_io as io;

/// Scheduling points reported to the hook.
#[derive(Clone, Copy, PartialEq, Eq, Debug)]
pub enum Point {
    BeforeLock,
    AfterUnlock,
}

pub static mut HOOK: Option<fn(Point)> = None;
pub static mut ACQUIRES: u32 = 0;
pub static mut RELEASES: u32 = 0;
static mut IN_HOOK: bool = false;

fn call_hook(p: Point) {
    unsafe {
        if IN_HOOK {
            return;
        }
        if let Some(h) = HOOK {
            IN_HOOK = true;
            h(p);
            IN_HOOK = false;
        }
    }
}

pub struct Mutex<T> {
    locked: Cell<bool>,
    cell: UnsafeCell<T>,
}
unsafe impl<T: Send> Send for Mutex<T> {}
unsafe impl<T: Send> Sync for Mutex<T> {}

pub struct MutexGuard<'a, T> {
    m: &'a Mutex<T>,
}

impl<T> Mutex<T> {
    pub fn new(t: T) -> Mutex<T> {
        Mutex { locked: Cell::new(false), cell: UnsafeCell::new(t) }
    }
    pub fn lock(&self) -> std::sync::LockResult<MutexGuard<'_, T>> {
        call_hook(Point::BeforeLock);
        assert!(!self.locked.get(), "verif_std::Mutex: lock() while already held (self-deadlock)");
        self.locked.set(true);
        unsafe {
            ACQUIRES += 1;
        }
        Ok(MutexGuard { m: self })
    }
    pub fn try_lock(&self) -> std::sync::TryLockResult<MutexGuard<'_, T>> {
        if self.locked.get() {
            return Err(std::sync::TryLockError::WouldBlock);
        }
        self.locked.set(true);
        unsafe {
            ACQUIRES += 1;
        }
        Ok(MutexGuard { m: self })
    }
    pub fn is_poisoned(&self) -> bool {
        false
    }
    pub fn get_mut(&mut self) -> std::sync::LockResult<&mut T> {
        Ok(self.cell.get_mut())
    }
    pub fn into_inner(self) -> std::sync::LockResult<T> {
        Ok(self.cell.into_inner())
    }
}

impl<T> Deref for MutexGuard<'_, T> {
    type Target = T;
    fn deref(&self) -> &T {
        unsafe { &*self.m.cell.get() }
    }
}
impl<T> DerefMut for MutexGuard<'_, T> {
    fn deref_mut(&mut self) -> &mut T {
        unsafe { &mut *self.m.cell.get() }
    }
}
impl<T> Drop for MutexGuard<'_, T> {
    fn drop(&mut self) {
        self.m.locked.set(false);
        unsafe {
            RELEASES += 1;
        }
        call_hook(Point::AfterUnlock);
    }
}

struct ArcInner<T> {
    count: Cell<usize>,
    value: T,
}

pub struct Arc<T> {
    ptr: *mut ArcInner<T>,
}
unsafe impl<T: Send + Sync> Send for Arc<T> {}
unsafe impl<T: Send + Sync> Sync for Arc<T> {}

impl<T> Arc<T> {
    pub fn new(value: T) -> Arc<T> {
        Arc { ptr: Box::into_raw(Box::new(ArcInner { count: Cell::new(1), value })) }
    }
    pub fn strong_count(this: &Arc<T>) -> usize {
        unsafe { (*this.ptr).count.get() }
    }
    pub fn ptr_eq(a: &Arc<T>, b: &Arc<T>) -> bool {
        a.ptr == b.ptr
    }
}
impl<T> Clone for Arc<T> {
    fn clone(&self) -> Arc<T> {
        unsafe {
            let c = &(*self.ptr).count;
            c.set(c.get() + 1);
        }
        Arc { ptr: self.ptr }
    }
}
impl<T> Deref for Arc<T> {
    type Target = T;
    fn deref(&self) -> &T {
        unsafe { &(*self.ptr).value }
    }
}
impl<T> Drop for Arc<T> {
    fn drop(&mut self) {
        unsafe {
            let c = &(*self.ptr).count;
            let n = c.get() - 1;
            c.set(n);
            if n == 0 {
                drop(Box::from_raw(self.ptr));
            }
        }
    }
}

/// Inline fixed-capacity queue (no heap: see the note on HeaderMap in shims/http).
/// Exceeding QCAP elements is reported as a model-capacity assertion, never silently.
pub const QCAP: usize = 4;
pub struct VecDeque<T> {
    items: [Option<T>; QCAP],
    len: usize,
}
impl<T> VecDeque<T> {
    pub fn new() -> VecDeque<T> {
        VecDeque { items: [const { None }; QCAP], len: 0 }
    }
    pub fn with_capacity(_n: usize) -> VecDeque<T> {
        VecDeque::new()
    }
    pub fn len(&self) -> usize {
        self.len
    }
    pub fn is_empty(&self) -> bool {
        self.len == 0
    }
    pub fn push_back(&mut self, t: T) {
        assert!(self.len < QCAP, "verif_std::VecDeque: model capacity exceeded");
        self.items[self.len] = Some(t);
        self.len += 1;
    }
    pub fn push_front(&mut self, t: T) {
        assert!(self.len < QCAP, "verif_std::VecDeque: model capacity exceeded");
        let mut i = QCAP - 1;
        while i > 0 {
            if i <= self.len {
                self.items[i] = self.items[i - 1].take();
            }
            i -= 1;
        }
        self.items[0] = Some(t);
        self.len += 1;
    }
    pub fn pop_front(&mut self) -> Option<T> {
        if self.len == 0 {
            return None;
        }
        let r = self.items[0].take();
        let mut i = 0;
        while i + 1 < QCAP {
            if i + 1 < self.len {
                self.items[i] = self.items[i + 1].take();
            }
            i += 1;
        }
        self.len -= 1;
        r
    }
    pub fn pop_back(&mut self) -> Option<T> {
        if self.len == 0 {
            return None;
        }
        self.len -= 1;
        self.items[self.len].take()
    }
    pub fn front(&self) -> Option<&T> {
        if self.len == 0 {
            None
        } else {
            self.items[0].as_ref()
        }
    }
    pub fn back(&self) -> Option<&T> {
        if self.len == 0 {
            None
        } else {
            self.items[self.len - 1].as_ref()
        }
    }
    pub fn front_mut(&mut self) -> Option<&mut T> {
        if self.len == 0 {
            None
        } else {
            self.items[0].as_mut()
        }
    }
    pub fn back_mut(&mut self) -> Option<&mut T> {
        if self.len == 0 {
            None
        } else {
            self.items[self.len - 1].as_mut()
        }
    }
    pub fn get_mut(&mut self, i: usize) -> Option<&mut T> {
        if i < self.len {
            self.items[i].as_mut()
        } else {
            None
        }
    }
    pub fn clear(&mut self) {
        let mut i = 0;
        while i < QCAP {
            self.items[i] = None;
            i += 1;
        }
        self.len = 0;
    }
    pub fn get(&self, i: usize) -> Option<&T> {
        if i < self.len {
            self.items[i].as_ref()
        } else {
            None
        }
    }
    pub fn iter(&self) -> impl Iterator<Item = &T> {
        self.items.iter().filter_map(|x| x.as_ref())
    }
}
impl<T> Default for VecDeque<T> {
    fn default() -> Self {
        VecDeque::new()
    }
}
