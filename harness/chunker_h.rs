// Kani harnesses for src/chunker.rs (C08, C10, C11, C12, C20). Injected as `chunker::verif_h`
// (a child module: Shared, SharedState, Writer and Reader fields are visible); shim
// configuration with the std model.
//
// METHOD: inductive steps instead of histories. Whole write/flush/poll histories through the
// real code are out of reach (measured: one `poll_frame` on a heap-resident shared state costs
// 3-7 million clauses, a 3-operation history with polls > 100 million). All state shared by
// producer and consumer lives under one mutex, so it suffices to show, from an ARBITRARY
// shared state that satisfies the invariant INV below,
//   * PRODUCER STEP (prod_*): any two consecutive producer operations (write / write_all /
//     flush / abort / drop, lengths from the generated families) return what the property
//     demands, leave INV intact, append exactly the accepted bytes to `queue ++ buffer`, and
//     wake a registered waker whenever they publish a chunk, the end, or an error;
//   * CONSUMER STEP (cons_*): up to three consecutive polls (any wakers) deliver the queued
//     chunks in FIFO order and unchanged, park only on an empty live queue and then leave the
//     LATEST waker registered, report hints that bracket what is queued, never claim
//     end-of-stream before an error or data is delivered, and stay terminated after the first
//     terminal event;
//   * READER DROP (rdrop_*): dropping the body tells the writer (state leaves Ok).
// By induction over the sequence of critical sections this covers histories and interleavings
// of any length at lock granularity (the mutex is trusted to be a mutex). A counterexample is
// a pre-state plus operations; the decoder turns the pre-state into a short history that
// reaches it (it is reachable iff it satisfies INV) and the native replayer runs it.
//
// INV (Shared, between critical sections):
//   I1  state = Ok{ready, ready_bytes, writer_dropped}: ready_bytes = sum of chunk lengths, every
//       queued chunk is non-empty (and at most `cap` bytes);
//   I2  a registered waker implies: state is Ok, the queue is empty and the writer is alive
//       (the consumer parks only when there is nothing to deliver);
// Writer: capacity(buf) is 0 (then len = 0) or cap, and len(buf) < cap.
#![allow(dead_code, unused_imports, static_mut_refs, unused_variables, unused_assignments)]

use super::*;
use crate::body::{Body, BodyStream};
use crate::verif_std as vs;
use bytes::Buf;
use std::task::{Context, RawWaker, RawWakerVTable, Waker};

pub enum Chunk {
    Lit(Vec<u8>),
    Stat(&'static [u8]),
}
impl Buf for Chunk {
    fn remaining(&self) -> usize {
        match self {
            Chunk::Lit(v) => v.len(),
            Chunk::Stat(s) => s.len(),
        }
    }
    fn chunk(&self) -> &[u8] {
        match self {
            Chunk::Lit(v) => &v[..],
            Chunk::Stat(s) => s,
        }
    }
    fn advance(&mut self, _cnt: usize) {}
}
impl From<Vec<u8>> for Chunk {
    fn from(v: Vec<u8>) -> Self {
        Chunk::Lit(v)
    }
}
impl From<&'static [u8]> for Chunk {
    fn from(v: &'static [u8]) -> Self {
        Chunk::Stat(v)
    }
}
pub struct HErr {
    pub tag: u8,
}
impl From<crate::BoxError> for HErr {
    fn from(b: crate::BoxError) -> Self {
        std::mem::forget(b);
        HErr { tag: 0 }
    }
}

type TBody = Body<Chunk, HErr>;

// ---------------------------------------------------------------------------------------
// wakers: identity = index (0..2); wake() counts.

pub static mut WAKES: [u32; 3] = [0; 3];

unsafe fn w_clone(p: *const ()) -> RawWaker {
    RawWaker::new(p, &VT)
}
unsafe fn w_wake(p: *const ()) {
    let i = p as usize;
    if i < 3 {
        WAKES[i] += 1;
    }
}
unsafe fn w_drop(_p: *const ()) {}
static VT: RawWakerVTable = RawWakerVTable::new(w_clone, w_wake, w_wake, w_drop);

fn waker(i: usize) -> Waker {
    unsafe { Waker::from_raw(RawWaker::new(i as *const (), &VT)) }
}

// ---------------------------------------------------------------------------------------
// pre-states

pub const ST_OK: u8 = 0;
pub const ST_ERR: u8 = 1;
pub const ST_FUSED: u8 = 2;

pub const MAXL: usize = 3; // longest queued chunk / chunk size in the generated families
pub const NOBUF: u8 = 255;

/// Structural part of a pre-state: constants of the harness instance.
#[derive(Clone, Copy)]
pub struct Pre {
    pub state: u8,
    /// number of queued chunks (0..=2)
    pub nq: usize,
    pub writer_dropped: bool,
    /// a waker (index 0) is registered
    pub waker: bool,
    /// chunk size
    pub cap: usize,
    /// bytes already in the writer's buffer (< cap); NOBUF = buffer not allocated
    pub buf_len: u8,
}

/// SCENARIO (all families): l0:usize l1:usize q0:[u8;3] q1:[u8;3] wb:[u8;3] data:[u8;8] w1:u8 w2:u8
pub struct Sym {
    pub l: [usize; 2],
    pub q: [[u8; MAXL]; 2],
    pub wb: [u8; MAXL],
    pub data: [u8; 8],
    pub wk: [u8; 2],
}

fn draw_sym(pre: Pre) -> Sym {
    let l0: usize = kani::any();
    let l1: usize = kani::any();
    let q0: [u8; MAXL] = kani::any();
    let q1: [u8; MAXL] = kani::any();
    let wb: [u8; MAXL] = kani::any();
    let data: [u8; 8] = kani::any();
    let w1: u8 = kani::any();
    let w2: u8 = kani::any();
    // I1: queued chunks are non-empty and at most cap bytes
    kani::assume(l0 >= 1 && l0 <= pre.cap && l1 >= 1 && l1 <= pre.cap);
    kani::assume(w1 >= 1 && w1 <= 2 && w2 >= 1 && w2 <= 2);
    Sym { l: [l0, l1], q: [q0, q1], wb, data, wk: [w1, w2] }
}

fn mk_chunk(bytes: &[u8; MAXL], len: usize) -> Vec<u8> {
    // all MAXL bytes are written, then the length is cut: no symbolic-size copy
    let mut v = Vec::with_capacity(MAXL);
    v.extend_from_slice(&bytes[..]);
    v.truncate(len);
    v
}

fn mk_shared(pre: Pre, sy: &Sym) -> Arc<Mutex<Shared<HErr>>> {
    let state = match pre.state {
        ST_OK => {
            let mut ready = VecDeque::new();
            let mut ready_bytes = 0;
            if pre.nq >= 1 {
                ready.push_back(mk_chunk(&sy.q[0], sy.l[0]));
                ready_bytes += sy.l[0];
            }
            if pre.nq >= 2 {
                ready.push_back(mk_chunk(&sy.q[1], sy.l[1]));
                ready_bytes += sy.l[1];
            }
            SharedState::Ok { ready, ready_bytes, writer_dropped: pre.writer_dropped }
        }
        ST_ERR => SharedState::Err(HErr { tag: 7 }),
        _ => SharedState::ReaderFused,
    };
    Arc::new(Mutex::new(Shared { state, waker: if pre.waker { Some(waker(0)) } else { None } }))
}

// INV is checked at EVERY release of the mutex (the points where the other thread can look),
// not only at the end of an operation: an operation that publishes data in one critical section
// and takes the waker in another is caught here.
// (a clone of the Arc, not a raw pointer into it: with a raw interior pointer in a static CBMC
// 6.11 reported a spurious dealloc of the emptied writer buffer -- garbage capacity)
static mut SHARED_ARC: Option<Arc<Mutex<Shared<HErr>>>> = None;
pub static mut INV_CHECKS: u32 = 0;

fn check_inv(l: &Shared<HErr>) {
    if let SharedState::Ok { ready, ready_bytes, writer_dropped } = &l.state {
        let mut sum = 0;
        let mut c = 0;
        while c < NP {
            if c < ready.len() {
                let v = ready.get(c).unwrap();
                assert!(!v.is_empty(), "C08: empty chunk queued");
                sum += v.len();
            }
            c += 1;
        }
        assert!(*ready_bytes == sum, "C12: ready_bytes is not the sum of the queued chunk lengths when the lock is released");
        if l.waker.is_some() {
            assert!(ready.is_empty() && !*writer_dropped,
                    "C10: the lock was released with a waker still registered although chunks or the end are available (lost wake-up window)");
        }
    }
}

fn inv_hook(p: vs::Point) {
    if p != vs::Point::AfterUnlock {
        return;
    }
    unsafe {
        if let Some(a) = SHARED_ARC.as_ref() {
            let l = a.lock().unwrap();
            check_inv(&l);
            INV_CHECKS += 1;
            drop(l);
        }
    }
}

fn install_hook(shared: &Arc<Mutex<Shared<HErr>>>) {
    unsafe {
        std::mem::forget(SHARED_ARC.replace(shared.clone()));
        vs::HOOK = Some(inv_hook);
    }
}
fn remove_hook() {
    unsafe {
        vs::HOOK = None;
    }
}

// ---------------------------------------------------------------------------------------
// producer steps

pub const OP_W: u8 = 0; // write(len)
pub const OP_A: u8 = 1; // write_all(len)
pub const OP_F: u8 = 2; // flush
pub const OP_X: u8 = 3; // abort
pub const OP_D: u8 = 4; // drop the writer
pub const OP_N: u8 = 5; // nothing (single-operation instances)

pub const NP: usize = 4;

pub fn prod_step(pre: Pre, ops: [(u8, u8); 2]) {
    use vs::io::Write;
    let sy = draw_sym(pre);
    let shared = mk_shared(pre, &sy);
    let mut buf = Vec::new();
    let mut pre_buf = 0usize;
    if pre.buf_len != NOBUF {
        buf.reserve_exact(pre.cap);
        pre_buf = pre.buf_len as usize;
        buf.extend_from_slice(&sy.wb[..pre_buf]);
    }
    // (ManuallyDrop + drop in place keeps the writer at one address for the whole harness)
    let mut w: std::mem::ManuallyDrop<Writer<Chunk, HErr>> =
        std::mem::ManuallyDrop::new(Writer { shared: shared.clone(), buf, cap: pre.cap, _marker: std::marker::PhantomData });
    let mut alive = true;
    install_hook(&shared);
    // seq = bytes buffered in the pre-state followed by every byte a call reported as accepted
    let mut seq = [0u8; 16];
    let mut sn = 0usize;
    let mut j = 0;
    while j < MAXL {
        if j < pre_buf {
            seq[sn] = sy.wb[j];
            sn += 1;
        }
        j += 1;
    }
    let live0 = pre.state == ST_OK;
    let mut live = live0; // shared state is Ok (consumer present, no abort yet)
    let mut aborted = false;
    let mut dropped_live = false;
    let mut off = 0usize;
    let mut failed_before = false;
    let mut i = 0;
    while i < 2 {
        let (kind, len) = ops[i];
        let n = len as usize;
        if alive {
            let wr: &mut Writer<Chunk, HErr> = &mut *w;
            match kind {
                OP_W => {
                    let src = &sy.data[off..off + n];
                    off += n;
                    match wr.write(src) {
                        Ok(k) => {
                            assert!(k <= n, "C08: write reported more bytes than it was given");
                            // a write that fills the chunk publishes it; with the body gone or the
                            // transfer aborted that cannot succeed, so a successful write never
                            // leaves a full buffer behind
                            assert!(live || wr.buf.len() < wr.buf.capacity(), "C11: a chunk-completing write succeeded although the body is gone or aborted");
                            if live && !failed_before {
                                assert!(n == 0 || k >= 1, "C08: write of a non-empty buffer to a live body accepted nothing");
                            }
                            let mut t = 0;
                            while t < 4 {
                                if t < k {
                                    seq[sn] = src[t];
                                    sn += 1;
                                }
                                t += 1;
                            }
                        }
                        Err(e) => {
                            std::mem::forget(e);
                            assert!(!live, "C08: write failed on a live body");
                            failed_before = true;
                        }
                    }
                }
                OP_A => {
                    let src = &sy.data[off..off + n];
                    off += n;
                    match wr.write_all(src) {
                        Ok(()) => {
                            let mut t = 0;
                            while t < 4 {
                                if t < n {
                                    seq[sn] = src[t];
                                    sn += 1;
                                }
                                t += 1;
                            }
                        }
                        Err(e) => {
                            std::mem::forget(e);
                            assert!(!live, "C08: write_all failed on a live body");
                            failed_before = true;
                        }
                    }
                }
                OP_F => {
                    let had = !wr.buf.is_empty();
                    match wr.flush() {
                        Ok(()) => {
                            assert!(live || !had, "C11: flush of buffered data succeeded although the body is gone or aborted");
                            if live {
                                assert!(wr.buf.is_empty(), "C08: flush returned but accepted bytes are still only in the writer's buffer");
                            }
                        }
                        Err(e) => {
                            std::mem::forget(e);
                            assert!(!live, "C08: flush failed on a live body");
                            failed_before = true;
                        }
                    }
                }
                OP_X => {
                    wr.abort(HErr { tag: 1 });
                    if live {
                        aborted = true;
                    }
                    live = false;
                }
                OP_D => {
                    if live {
                        dropped_live = true;
                    }
                    alive = false;
                    unsafe { std::mem::ManuallyDrop::drop(&mut w) };
                }
                _ => {}
            }
        }
        i += 1;
    }

    // ---- post-state
    remove_hook();
    let l = shared.lock().unwrap();
    let mut published = aborted || dropped_live;
    match &l.state {
        SharedState::Ok { ready, ready_bytes, writer_dropped } => {
            assert!(live0 && !aborted, "C11: state is Ok after abort / with the consumer gone");
            assert!(*writer_dropped == !alive, "C10: writer_dropped flag does not reflect whether the writer is alive");
            assert!(ready.len() >= pre.nq, "C08: queued chunks disappeared without a consumer");
            assert!(ready.len() <= NP, "model capacity: more queued chunks than the harness inspects");
            if ready.len() > pre.nq {
                published = true;
            }
            // old chunks untouched; new chunks ++ buffer = pre-state buffer ++ accepted bytes
            let mut sum = 0;
            let mut idx = 0usize;
            let mut c = 0;
            while c < NP {
                if c < ready.len() {
                    let v = ready.get(c).unwrap();
                    assert!(!v.is_empty(), "C08: empty chunk queued");
                    assert!(v.len() <= MAXL + 1, "model capacity: chunk longer than the harness inspects");
                    sum += v.len();
                    if c < pre.nq {
                        assert!(v.len() == sy.l[c], "C08: a queued chunk changed length");
                        let mut t = 0;
                        while t < MAXL {
                            if t < v.len() {
                                assert!(v[t] == sy.q[c][t], "C08: a queued chunk changed content");
                            }
                            t += 1;
                        }
                    } else if !failed_before {
                        let mut t = 0;
                        while t < MAXL + 1 {
                            if t < v.len() {
                                assert!(idx < sn, "C08: more bytes queued than were accepted (duplication)");
                                assert!(v[t] == seq[idx], "C08: queued bytes differ from the accepted bytes (order, loss or duplication)");
                                idx += 1;
                            }
                            t += 1;
                        }
                    }
                }
                c += 1;
            }
            assert!(*ready_bytes == sum, "C12: ready_bytes is not the sum of the queued chunk lengths");
            if l.waker.is_some() {
                assert!(ready.is_empty() && !*writer_dropped, "C10: a waker stays registered while chunks or the end are pending");
            }
            if !failed_before {
                match alive {
                    true => {
                        let wr: &Writer<Chunk, HErr> = &*w;
                        assert!(wr.buf.len() <= MAXL + 1, "model capacity: buffer longer than the harness inspects");
                        let mut t = 0;
                        while t < MAXL + 1 {
                            if t < wr.buf.len() {
                                assert!(idx < sn, "C08: more bytes buffered than were accepted (duplication)");
                                assert!(wr.buf[t] == seq[idx], "C08: buffered bytes differ from the accepted bytes");
                                idx += 1;
                            }
                            t += 1;
                        }
                    }
                    false => {}
                }
                assert!(idx == sn, "C08: accepted bytes are neither queued nor buffered (loss)");
            }
        }
        SharedState::Err(_) => {
            assert!(aborted || pre.state == ST_ERR, "C11: error state without abort");
            assert!(l.waker.is_none(), "C10: waker still registered after abort");
        }
        SharedState::ReaderFused => {
            assert!(pre.state == ST_FUSED, "C11: consumer-gone state invented by the producer");
        }
    }
    if pre.waker && published {
        assert!(l.waker.is_none(), "C10: a waker is still registered although data / end / error was published");
        assert!(unsafe { WAKES[0] } >= 1, "C10: parked consumer was not woken when data, the end or an error became available");
    }
    drop(l);
    // the writer-side part of INV must be re-established for the induction to be valid
    if alive {
        let wr: &Writer<Chunk, HErr> = &*w;
        if !failed_before && live0 && !aborted {
            assert!(wr.buf.capacity() == 0 || wr.buf.capacity() >= pre.cap, "HARNESS-ASSUMPTION INV: writer buffer capacity is neither 0 nor the chunk size");
            assert!(wr.buf.len() < pre.cap, "HARNESS-ASSUMPTION INV: the writer keeps a full chunk between calls");
        }
    }
    kani::cover!(true, "post-state reached");
    std::mem::forget(shared);
}

// ---------------------------------------------------------------------------------------
// consumer steps

pub fn cons_step(pre: Pre, npolls: usize) {
    let sy = draw_sym(pre);
    let shared = mk_shared(pre, &sy);
    let reader: Reader<Chunk, HErr> = Reader { shared: shared.clone(), _marker: std::marker::PhantomData };
    let body: TBody = Body(BodyStream::Chunker(reader));
    let mut body = Box::pin(body);
    install_hook(&shared);
    let queued: usize = match pre.state {
        ST_OK => (if pre.nq >= 1 { sy.l[0] } else { 0 }) + (if pre.nq >= 2 { sy.l[1] } else { 0 }),
        _ => 0,
    };
    let mut delivered = 0usize;
    let mut nframes = 0usize;
    let mut terminal = 0u8; // 1 end, 2 err
    let mut said_eos = false;
    let mut last_pending_waker: Option<usize> = None;
    let mut k = 0;
    while k < 3 {
        if k < npolls {
            let hint = http_body::Body::size_hint(&*body);
            let eos = http_body::Body::is_end_stream(&*body);
            // C12: the hint brackets what is queued and still undelivered
            if terminal == 0 {
                let rest = (queued - delivered) as u64;
                // (what the body still delivers on a clean end is at least what is queued; with
                // the writer alive it is unbounded, so no upper bound may be given then)
                if pre.state == ST_OK {
                    assert!(hint.lower() <= rest, "C12: size hint lower bound exceeds the queued bytes although the writer may add nothing more");
                    if pre.writer_dropped {
                        assert!(hint.upper().is_none() || hint.upper().unwrap() >= rest, "C12: size hint upper bound below the queued bytes");
                    } else {
                        assert!(hint.upper().is_none(), "C12: size hint gives an upper bound while the writer can still add data");
                    }
                } else {
                    assert!(hint.lower() == 0, "C12: size hint promises data in a terminal state");
                }
            }
            if eos {
                said_eos = true;
            }
            let wi = if k == 0 { sy.wk[0] as usize } else { sy.wk[1] as usize };
            let w = waker(wi);
            let mut cx = Context::from_waker(&w);
            match http_body::Body::poll_frame(body.as_mut(), &mut cx) {
                Poll::Ready(Some(Ok(f))) => {
                    assert!(terminal == 0, "C20: data after the body terminated");
                    assert!(!said_eos, "C12: data after is_end_stream()");
                    assert!(pre.state == ST_OK && nframes < pre.nq, "C08: a frame that was never queued");
                    if let Ok(c) = f.into_data() {
                        let b = c.chunk();
                        assert!(!b.is_empty(), "C08: empty data frame");
                        assert!(b.len() == sy.l[nframes], "C08: frame length differs from the queued chunk");
                        let mut t = 0;
                        while t < MAXL {
                            if t < b.len() {
                                assert!(b[t] == sy.q[nframes][t], "C08: frame bytes differ from the queued chunk (order or content)");
                            }
                            t += 1;
                        }
                        delivered += b.len();
                        std::mem::forget(c);
                    } else {
                        assert!(false, "C08: a non-data frame");
                    }
                    nframes += 1;
                    last_pending_waker = None;
                }
                Poll::Ready(Some(Err(e))) => {
                    std::mem::forget(e);
                    assert!(terminal == 0, "C20: error after the body terminated");
                    assert!(!said_eos, "C12: error after is_end_stream()");
                    assert!(pre.state == ST_ERR, "C11: error without abort");
                    terminal = 2;
                    last_pending_waker = None;
                }
                Poll::Ready(None) => {
                    if terminal == 0 {
                        assert!(pre.state != ST_ERR, "C11: clean end although an abort error is pending");
                        assert!(pre.state == ST_FUSED || (nframes == pre.nq && pre.writer_dropped), "C10: clean end while chunks are queued or the writer is alive");
                        terminal = 1;
                    }
                    last_pending_waker = None;
                }
                Poll::Pending => {
                    assert!(terminal == 0, "C20: Pending after the body terminated");
                    assert!(pre.state == ST_OK && nframes == pre.nq && !pre.writer_dropped, "C10: Pending while chunks, the end or an error are available");
                    last_pending_waker = Some(wi);
                }
            }
        }
        k += 1;
    }
    // ---- post-state: what the next step starts from
    remove_hook();
    {
        let l = shared.lock().unwrap();
        // C10: after a Pending poll the LATEST waker is the one registered
        if let Some(wi) = last_pending_waker {
            let ok = match &l.waker {
                Some(w) => w.will_wake(&waker(wi)),
                None => false,
            };
            assert!(ok, "C10: consumer parked but the waker of its latest poll is not the one registered");
        }
        match &l.state {
            SharedState::Ok { ready, ready_bytes, writer_dropped } => {
                assert!(terminal == 0, "C20: a terminal event was reported but the shared state is still live");
                assert!(pre.state == ST_OK, "C20: terminal state became live again");
                assert!(*writer_dropped == pre.writer_dropped, "C10: a poll changed the writer_dropped flag");
                assert!(ready.len() + nframes == pre.nq, "C08: chunks lost or duplicated by a poll");
                let mut sum = 0;
                let mut c = 0;
                while c < 2 {
                    if c < ready.len() {
                        let v = ready.get(c).unwrap();
                        let o = c + nframes;
                        assert!(v.len() == sy.l[o], "C08: a queued chunk changed length during a poll");
                        let mut t = 0;
                        while t < MAXL {
                            if t < v.len() {
                                assert!(v[t] == sy.q[o][t], "C08: a queued chunk changed content during a poll");
                            }
                            t += 1;
                        }
                        sum += v.len();
                    }
                    c += 1;
                }
                assert!(*ready_bytes == sum, "C12: ready_bytes is not the sum of the queued chunk lengths after a poll");
                if l.waker.is_some() {
                    assert!(ready.is_empty() && !*writer_dropped, "C10: a waker is registered although chunks or the end are available");
                }
            }
            SharedState::Err(_) => {
                assert!(pre.state == ST_ERR && terminal == 0, "C11/C20: the error is still pending after it was delivered");
            }
            SharedState::ReaderFused => {
                // terminal, or the last chunk of a finished writer was just handed out
                assert!(pre.state == ST_FUSED || terminal != 0 || (pre.state == ST_OK && pre.writer_dropped && nframes == pre.nq),
                        "C08/C10: the body was fused although chunks are queued or the writer is alive");
            }
        }
        drop(l);
    }
    kani::cover!(true, "post-state reached");
    std::mem::forget(body);
    std::mem::forget(shared);
}

/// Reader dropped (client gone): the shared state tells the writer (C11), the waker is released.
pub fn reader_drop_step(pre: Pre) {
    let sy = draw_sym(pre);
    let shared = mk_shared(pre, &sy);
    let reader: Reader<Chunk, HErr> = Reader { shared: shared.clone(), _marker: std::marker::PhantomData };
    drop(reader);
    let l = shared.lock().unwrap();
    let gone = match &l.state {
        SharedState::Ok { .. } => false,
        _ => true,
    };
    assert!(gone, "C11: response body dropped but the shared state still accepts chunks (the writer is never told)");
    drop(l);
    kani::cover!(true, "post-state reached");
    std::mem::forget(shared);
}

macro_rules! prod {
    ($name:ident, $pre:expr, $ops:expr) => {
        #[kani::proof]
        #[kani::unwind(10)]
        pub fn $name() {
            prod_step($pre, $ops)
        }
    };
}
macro_rules! cons {
    ($name:ident, $pre:expr, $n:expr) => {
        #[kani::proof]
        #[kani::unwind(10)]
        pub fn $name() {
            cons_step($pre, $n)
        }
    };
}
macro_rules! rdrop {
    ($name:ident, $pre:expr) => {
        #[kani::proof]
        #[kani::unwind(10)]
        pub fn $name() {
            reader_drop_step($pre)
        }
    };
}

#[path = "chunker_gen.rs"]
pub mod gen;
