// Kani harnesses for src/chunker.rs + the Raw/Dead arms of src/gzip.rs
// (C08, C10, C11, C12, C20). Injected as `chunker::verif_h`; shim configuration with the std
// model (harness/verif_std.rs): the mutex reports lock/unlock as scheduling points to `hook`,
// which runs consumer polls there -- in particular between the producer's unlock and its
// `wake()` -- so the solver explores every interleaving at lock-and-wake granularity of a
// producer program with a polling consumer, without threads.
#![allow(dead_code, unused_imports, static_mut_refs, unused_variables)]

use super::*;
use crate::body::{Body, BodyStream};
use crate::gzip::BodyWriter;
use crate::verif_std as vs;
use bytes::Buf;
use std::task::{Context, RawWaker, RawWakerVTable, Waker};

pub enum Chunk {
    Lit(Vec<u8>),
    Stat(&'static [u8]),
}
impl Buf for Chunk {
    fn remaining(&self) -> usize {
        match self {
            Chunk::Lit(v) => v.len(),
            Chunk::Stat(s) => s.len(),
        }
    }
    fn chunk(&self) -> &[u8] {
        match self {
            Chunk::Lit(v) => &v[..],
            Chunk::Stat(s) => s,
        }
    }
    fn advance(&mut self, _cnt: usize) {}
}
impl From<Vec<u8>> for Chunk {
    fn from(v: Vec<u8>) -> Self {
        Chunk::Lit(v)
    }
}
impl From<&'static [u8]> for Chunk {
    fn from(v: &'static [u8]) -> Self {
        Chunk::Stat(v)
    }
}
pub struct HErr {
    pub tag: u8,
}
impl From<crate::BoxError> for HErr {
    fn from(b: crate::BoxError) -> Self {
        std::mem::forget(b);
        HErr { tag: 0 }
    }
}

type TBody = Body<Chunk, HErr>;
type TWriter = BodyWriter<Chunk, HErr>;

// ---------------------------------------------------------------------------------------
// wakers: identity = index; wake() counts.

pub static mut WAKES: [u32; 2] = [0; 2];

unsafe fn w_clone(p: *const ()) -> RawWaker {
    RawWaker::new(p, &VT)
}
unsafe fn w_wake(p: *const ()) {
    let i = p as usize;
    WAKES[i & 1] += 1;
}
unsafe fn w_drop(_p: *const ()) {}
static VT: RawWakerVTable = RawWakerVTable::new(w_clone, w_wake, w_wake, w_drop);

fn waker(i: usize) -> Waker {
    unsafe { Waker::from_raw(RawWaker::new((i & 1) as *const (), &VT)) }
}

// ---------------------------------------------------------------------------------------
// monitor state

pub const MAX_ACC: usize = 20;
pub const MAX_SAMPLES: usize = 14;

pub struct Mon {
    acc: [u8; MAX_ACC],
    acc_n: usize,
    del_n: usize,
    mismatch: bool,
    empty_frame: bool,
    terminal: u8, // 0 none, 1 end, 2 err
    data_after_terminal: bool,
    err_after_end: bool,
    said_eos: bool,
    eos_violation: bool,
    parked: bool,
    park_waker: usize,
    wakes_at_park: u32,
    polls: u32,
    // (delivered so far, lower, upper+1 or 0 = none)
    samples: [(usize, u64, u64); MAX_SAMPLES],
    nsamples: usize,
}

static mut MON: Mon = Mon {
    acc: [0; MAX_ACC],
    acc_n: 0,
    del_n: 0,
    mismatch: false,
    empty_frame: false,
    terminal: 0,
    data_after_terminal: false,
    err_after_end: false,
    said_eos: false,
    eos_violation: false,
    parked: false,
    park_waker: 0,
    wakes_at_park: 0,
    polls: 0,
    samples: [(0, 0, 0); MAX_SAMPLES],
    nsamples: 0,
};
static mut BODY: *mut TBody = std::ptr::null_mut();

/// One consumer poll with waker `wi`, recording everything the properties talk about.
fn consumer_poll(wi: usize) {
    unsafe {
        if BODY.is_null() {
            return;
        }
        let body: &mut TBody = &mut *BODY;
        let m = &mut MON;
        // C12 samples
        let hint = http_body::Body::size_hint(&*body);
        let eos = http_body::Body::is_end_stream(&*body);
        if m.nsamples < MAX_SAMPLES {
            m.samples[m.nsamples] = (m.del_n, hint.lower(), match hint.upper() {
                Some(u) => u + 1,
                None => 0,
            });
            m.nsamples += 1;
        }
        if eos {
            m.said_eos = true;
        }
        let w = waker(wi);
        let mut cx = Context::from_waker(&w);
        // the body lives in a Box that is never moved
        let pinned = Pin::new_unchecked(body);
        m.polls += 1;
        match http_body::Body::poll_frame(pinned, &mut cx) {
            Poll::Ready(Some(Ok(f))) => {
                m.parked = false;
                if m.terminal != 0 {
                    m.data_after_terminal = true;
                }
                if m.said_eos {
                    m.eos_violation = true;
                }
                if let Ok(c) = f.into_data() {
                    let b = c.chunk();
                    if b.is_empty() {
                        m.empty_frame = true;
                    }
                    let mut j = 0;
                    while j < MAX_CAP {
                        if j < b.len() {
                            let k = m.del_n + j;
                            if k >= m.acc_n || k >= MAX_ACC || m.acc[k] != b[j] {
                                m.mismatch = true;
                            }
                        }
                        j += 1;
                    }
                    if b.len() > MAX_CAP {
                        m.mismatch = true;
                    }
                    m.del_n += b.len();
                    std::mem::forget(c);
                }
            }
            Poll::Ready(Some(Err(e))) => {
                std::mem::forget(e);
                m.parked = false;
                if m.said_eos {
                    m.eos_violation = true;
                }
                if m.terminal == 1 {
                    m.err_after_end = true;
                }
                if m.terminal == 0 {
                    m.terminal = 2;
                }
            }
            Poll::Ready(None) => {
                m.parked = false;
                if m.terminal == 0 {
                    m.terminal = 1;
                }
            }
            Poll::Pending => {
                m.parked = true;
                m.park_waker = wi & 1;
                m.wakes_at_park = WAKES[wi & 1];
            }
        }
    }
}

// ---------------------------------------------------------------------------------------
// schedule

pub const MAX_CAP: usize = 4;
/// longest buffer handed to one write (> every tested chunk size, so partial writes occur)
pub const MAX_W: usize = 5;
pub const N_OPS: usize = 4;
pub const N_SCHED: usize = 6;

/// At yield point number k (k-th lock/unlock event of a producer operation) the consumer
/// runs SCHED[k].0 polls (0..=2) with waker SCHED[k].1.
static mut SCHED: [(u8, u8); N_SCHED] = [(0, 0); N_SCHED];
static mut SCHED_I: usize = 0;
static mut HOOK_ON: bool = false;

fn hook(_p: vs::Point) {
    unsafe {
        if !HOOK_ON {
            return;
        }
        if SCHED_I < N_SCHED {
            let (n, wi) = SCHED[SCHED_I];
            SCHED_I += 1;
            if n >= 1 {
                consumer_poll(wi as usize);
            }
            if n >= 2 {
                consumer_poll(wi as usize);
            }
        }
    }
}

#[derive(Clone, Copy)]
pub struct Op {
    kind: u8, // 0 write 1 flush 2 poll 3 abort 4 write_all 5 nop
    len: u8,
    wk: u8,
}

pub struct Sc {
    ops: [Op; N_OPS],
    data: [u8; MAX_ACC],
}

/// SCENARIO chunker_*: cap:u8 | N_OPS x (kind:u8 len:u8 wk:u8) | data:[u8;24] | N_SCHED x (n:u8 wk:u8)
fn draw(allow_abort: bool, interleave: bool) -> Sc {
    let mut ops = [Op { kind: 5, len: 0, wk: 0 }; N_OPS];
    let mut i = 0;
    while i < N_OPS {
        let kind: u8 = kani::any();
        let len: u8 = kani::any();
        let wk: u8 = kani::any();
        kani::assume(kind <= 5 && wk <= 1 && (len as usize) <= MAX_W);
        if !allow_abort {
            kani::assume(kind != 3);
        }
        ops[i] = Op { kind, len, wk };
        i += 1;
    }
    let data: [u8; MAX_ACC] = kani::any();
    let mut k = 0;
    while k < N_SCHED {
        let n: u8 = kani::any();
        let wi: u8 = kani::any();
        kani::assume(n <= 2 && wi <= 1);
        if !interleave {
            kani::assume(n == 0);
        }
        unsafe {
            SCHED[k] = (n, wi);
        }
        k += 1;
    }
    Sc { ops, data }
}

fn record_accept(src: &[u8], n: usize) {
    unsafe {
        let m = &mut MON;
        let mut j = 0;
        while j < MAX_W {
            if j < n {
                if m.acc_n < MAX_ACC {
                    m.acc[m.acc_n] = src[j];
                    m.acc_n += 1;
                } else {
                    m.mismatch = true; // harness buffer too small: treated as inconclusive below
                }
            }
            j += 1;
        }
    }
}

/// Runs the scenario for one concrete chunk size.
fn run(cap: usize, sc: &Sc, allow_abort: bool, drop_body_at: Option<usize>) {
    use vs::io::Write;
    let (w, r) = Writer::<Chunk, HErr>::with_chunk_size(cap);
    let mut w: Option<TWriter> = Some(BodyWriter::raw(w));
    let mut body: Option<Box<TBody>> = Some(Box::new(Body(BodyStream::Chunker(r))));
    unsafe {
        BODY = &mut **body.as_mut().unwrap() as *mut TBody;
        vs::HOOK = Some(hook);
        HOOK_ON = true;
    }
    let mut aborted = false;
    let mut body_dropped = false;
    let mut off = 0usize;
    let mut i = 0;
    while i < N_OPS {
        if drop_body_at == Some(i) && !body_dropped {
            unsafe {
                BODY = std::ptr::null_mut();
            }
            body = None;
            body_dropped = true;
        }
        let op = sc.ops[i];
        let n = op.len as usize;
        match op.kind {
            0 | 4 => {
                // write / write_all of data[off..off+n]
                if off + n <= MAX_ACC {
                    let src = &sc.data[off..off + n];
                    let wr = w.as_mut().unwrap();
                    if op.kind == 0 {
                        match wr.write(src) {
                            Ok(k) => {
                                assert!(k <= n, "C08: write reported more bytes than it was given");
                                assert!(!(aborted), "C11: write succeeded after abort");
                                if !body_dropped {
                                    assert!(n == 0 || k >= 1, "C08: write of a non-empty buffer to a live body accepted nothing");
                                }
                                record_accept(src, k);
                            }
                            Err(e) => {
                                std::mem::forget(e);
                                assert!(aborted || body_dropped, "C08: write failed on a live body");
                            }
                        }
                    } else {
                        match wr.write_all(src) {
                            Ok(()) => {
                                assert!(!aborted || n == 0, "C11: write_all succeeded after abort");
                                record_accept(src, n);
                            }
                            Err(e) => {
                                std::mem::forget(e);
                                assert!(aborted || body_dropped, "C08: write_all failed on a live body");
                            }
                        }
                    }
                    off += n;
                }
            }
            1 => {
                let wr = w.as_mut().unwrap();
                let before_polls = unsafe { MON.polls };
                match wr.flush() {
                    Ok(()) => {
                        assert!(!aborted, "C11: flush succeeded after abort");
                        // C08: right after flush returns, everything accepted is available to the
                        // consumer without further producer action.
                        if !body_dropped {
                            unsafe {
                                HOOK_ON = false;
                            }
                            let mut g = 0;
                            // at most one chunk per producer operation can be queued
                            while g < N_OPS + 1 {
                                let before = unsafe { MON.del_n };
                                if unsafe { MON.del_n < MON.acc_n && MON.terminal == 0 } {
                                    consumer_poll(0);
                                    assert!(unsafe { MON.del_n > before || MON.terminal != 0 }, "C08: after flush, accepted bytes are not available to the consumer");
                                }
                                g += 1;
                            }
                            unsafe {
                                HOOK_ON = true;
                            }
                            assert!(unsafe { MON.del_n == MON.acc_n || MON.terminal != 0 }, "C08: after flush, accepted bytes are not available to the consumer");
                        }
                    }
                    Err(e) => {
                        std::mem::forget(e);
                        assert!(aborted || body_dropped, "C08: flush failed on a live body");
                    }
                }
            }
            2 => {
                if !body_dropped {
                    consumer_poll(op.wk as usize);
                }
            }
            3 => {
                let wr = w.as_mut().unwrap();
                wr.abort(HErr { tag: 1 });
                aborted = true;
                // C10: an abort wakes a parked consumer
                unsafe {
                    if MON.parked && !body_dropped {
                        assert!(WAKES[MON.park_waker] > MON.wakes_at_park, "C10: consumer parked on an empty queue was not woken by abort");
                    }
                }
            }
            _ => {}
        }
        // C10: whenever data is available and the consumer is parked, it has been woken.
        unsafe {
            if !body_dropped && MON.parked && MON.terminal == 0 {
                let avail = http_body::Body::size_hint(&**body.as_ref().unwrap()).lower();
                if avail > 0 {
                    assert!(WAKES[MON.park_waker] > MON.wakes_at_park, "C10: data was queued but the parked consumer was not woken");
                }
            }
        }
        i += 1;
    }

    // C11 second half: the consumer is gone -> the writer is told.
    if body_dropped && !aborted {
        let wr = w.as_mut().unwrap();
        let r1 = wr.write(&[7u8]);
        let r2 = wr.flush();
        let ok1 = r1.is_ok();
        let ok2 = r2.is_ok();
        std::mem::forget(r1);
        std::mem::forget(r2);
        assert!(!(ok1 && ok2), "C11: response body dropped, yet write + flush still succeed (writer never told)");
    }

    // writer goes away
    let parked_before_drop = unsafe { MON.parked };
    let wakes_before_drop = unsafe { WAKES };
    drop(w.take());
    if !body_dropped {
        unsafe {
            HOOK_ON = false;
            // C10: the drop (or the abort before it) woke a parked consumer
            if parked_before_drop && MON.parked {
                assert!(WAKES[MON.park_waker] > MON.wakes_at_park, "C10: writer dropped but the parked consumer was never woken (sleeps forever)");
            }
            // bounded termination: queued chunks + 2 polls
            let mut g = 0;
            while g < N_OPS + 3 {
                if MON.terminal == 0 {
                    consumer_poll(0);
                    assert!(!MON.parked, "C10: writer is gone but the body is still Pending");
                }
                g += 1;
            }
            assert!(MON.terminal != 0, "C10: body did not terminate within the poll bound after the writer was dropped");
            // C20: three more polls
            consumer_poll(1);
            consumer_poll(1);
            consumer_poll(0);
            let m = &MON;
            assert!(!m.data_after_terminal, "C20: data after the streaming body terminated");
            assert!(!m.err_after_end, "C20: error after the streaming body ended cleanly");
            assert!(!m.eos_violation, "C12: is_end_stream() was true but data or an error followed");
            assert!(!m.empty_frame, "C08: empty data frame");
            assert!(!m.mismatch, "C08/C11: delivered bytes are not the accepted bytes in order");
            if aborted {
                assert!(m.terminal == 2, "C11: clean end after abort");
                assert!(m.del_n <= m.acc_n, "C11: delivered more than was written");
            } else {
                assert!(m.terminal == 1, "C08: body failed without abort");
                assert!(m.del_n == m.acc_n, "C08: delivered byte count differs from accepted byte count");
                // C12: every sampled hint bracketed what was still to come
                let mut s = 0;
                while s < MAX_SAMPLES {
                    if s < m.nsamples {
                        let (d, lo, up1) = m.samples[s];
                        let rest = (m.del_n - d) as u64;
                        assert!(lo <= rest, "C12: size hint lower bound above the bytes still delivered");
                        if up1 != 0 {
                            assert!(up1 - 1 >= rest, "C12: size hint upper bound below the bytes still delivered");
                        }
                    }
                    s += 1;
                }
            }
            kani::cover!(m.terminal == 1 && m.del_n >= 3, "clean end with >= 3 bytes");
            kani::cover!(m.terminal == 2 && m.del_n >= 1, "abort after some data was delivered");
            kani::cover!(m.nsamples >= 5, "at least five polls");
        }
    }
    unsafe {
        BODY = std::ptr::null_mut();
        HOOK_ON = false;
    }
    std::mem::forget(body);
}

fn cap_of(k: u8) -> usize {
    match k {
        0 => 1,
        1 => 2,
        2 => 3,
        _ => 4,
    }
}

macro_rules! chunker_harness {
    ($name:ident, $cap:expr, $abort:expr, $inter:expr, $unwind:expr) => {
        #[kani::proof]
        #[kani::unwind($unwind)]
        #[kani::stub(core::slice::memchr::memchr, naive_memchr)]
        pub fn $name() {
            let sc = draw($abort, $inter);
            run($cap, &sc, $abort, None);
        }
    };
}

pub fn naive_memchr(x: u8, text: &[u8]) -> Option<usize> {
    let mut i = 0;
    while i < text.len() {
        if text[i] == x {
            return Some(i);
        }
        i += 1;
    }
    None
}

// sequential histories (C08, C12, C20)
chunker_harness!(chunker_seq_cap1, 1, false, false, 26);
chunker_harness!(chunker_seq_cap2, 2, false, false, 26);
chunker_harness!(chunker_seq_cap3, 3, false, false, 26);
chunker_harness!(chunker_seq_cap4, 4, false, false, 26);
// with abort (C11)
chunker_harness!(chunker_abort_cap2, 2, true, false, 26);
chunker_harness!(chunker_abort_cap3, 3, true, false, 26);
// interleaved consumer (C10)
chunker_harness!(chunker_inter_cap1, 1, true, true, 26);
chunker_harness!(chunker_inter_cap2, 2, true, true, 26);

/// Body dropped at a symbolic position of the producer program (C11, second half).
#[kani::proof]
#[kani::unwind(26)]
pub fn chunker_body_drop_cap2() {
    let sc = draw(false, false);
    let at: usize = kani::any();
    kani::assume(at < N_OPS);
    run(2, &sc, false, Some(at));
}
