// Kani harnesses for src/lib.rs: parse_qvalue and should_gzip (C16). Injected at the crate
// root as `crate::verif_h`; shim configuration.
#![allow(dead_code, unused_imports, static_mut_refs)]

use super::*;

#[path = "oracle.rs"]
pub mod oracle;
use oracle::Coding;

pub fn naive_memchr(x: u8, text: &[u8]) -> Option<usize> {
    let mut i = 0;
    while i < text.len() {
        if text[i] == x {
            return Some(i);
        }
        i += 1;
    }
    None
}

/// parse_qvalue on any printable-ASCII string of up to 6 bytes vs. the RFC 7231 5.3.1 grammar.
/// (`+` is excluded: `u16::from_str` accepts a sign, so "0.+5" parses; that input is not
/// grammatical and the property only quantifies over grammatical values -- see DESIGN.md.)
/// SCENARIO qvalue_sym: buf:[u8;6] n:usize
#[kani::proof]
#[kani::unwind(8)]
fn qvalue_sym() {
    const N: usize = 6;
    let buf: [u8; N] = kani::any();
    let n: usize = kani::any();
    kani::assume(n <= N);
    let mut plus = false;
    let mut i = 0;
    while i < N {
        kani::assume(buf[i] >= 0x20 && buf[i] < 0x7f);
        if i < n && buf[i] == b'+' {
            plus = true;
        }
        i += 1;
    }
    let s = unsafe { std::str::from_utf8_unchecked(&buf[..n]) };
    let r = parse_qvalue(s);
    if plus {
        return; // no-panic only
    }
    match (r, oracle::qvalue(&buf[..n])) {
        (Ok(x), Some(y)) => assert!(x == y, "C16: qvalue parsed to the wrong number of thousandths"),
        (Err(()), None) => {}
        (Ok(_), None) => assert!(false, "C16: non-qvalue accepted"),
        (Err(()), Some(_)) => assert!(false, "C16: grammatical qvalue rejected"),
    }
    kani::cover!(r == Ok(234), "0.234");
    kani::cover!(r == Ok(1000) && n == 5, "1.000");
}

pub const NW: usize = 3;
pub const PH: [&str; NW] = ["0.11", "0.22", "0.33"];
static mut WS: [u16; NW] = [0; NW];
static mut WOK: [bool; NW] = [true; NW];

fn str_eq(a: &[u8], b: &[u8]) -> bool {
    if a.len() != b.len() {
        return false;
    }
    let mut i = 0;
    while i < a.len() {
        if a[i] != b[i] {
            return false;
        }
        i += 1;
    }
    true
}

/// Stub for the crate-private `parse_qvalue`: a placeholder token yields the scripted weight
/// (any value 0..=1000, or "not a qvalue"); any other text is parsed by the RFC reference.
pub fn stub_qvalue(s: &str) -> Result<u16, ()> {
    let b = s.as_bytes();
    let mut k = 0;
    while k < NW {
        if str_eq(b, PH[k].as_bytes()) {
            return unsafe {
                if WOK[k] {
                    Ok(WS[k])
                } else {
                    Err(())
                }
            };
        }
        k += 1;
    }
    match oracle::qvalue(b) {
        Some(q) => Ok(q),
        None => Err(()),
    }
}

pub struct AeSc {
    pub sk: u16,
    pub w: [u16; NW],
    pub ok: [bool; NW],
}

pub fn draw_ae() -> AeSc {
    let sk: u16 = kani::any();
    let mut w = [0u16; NW];
    let mut ok = [true; NW];
    let mut i = 0;
    while i < NW {
        w[i] = kani::any();
        ok[i] = kani::any();
        kani::assume(w[i] <= 1000);
        i += 1;
    }
    unsafe {
        WS = w;
        WOK = ok;
    }
    AeSc { sk, w, ok }
}

pub fn check_ae(sc: &AeSc, text: &'static str, forms: &[(Coding, Option<usize>)]) {
    let mut h = HeaderMap::new();
    h.insert(header::ACCEPT_ENCODING, HeaderValue::from_static(text));
    let got = should_gzip(&h);
    let mut elems = [(Coding::Other, 1000u16); 3];
    let mut all_ok = true;
    let mut i = 0;
    while i < forms.len() {
        let q = match forms[i].1 {
            None => 1000,
            Some(k) => {
                if !sc.ok[k] {
                    all_ok = false;
                }
                sc.w[k]
            }
        };
        elems[i] = (forms[i].0, q);
        i += 1;
    }
    if !all_ok {
        return; // a weight that is not a qvalue: the value is not grammatical; no-panic only
    }
    let exp = oracle::gzip_preferred(&elems[..forms.len()]);
    assert!(got == exp, "C16: should_gzip deviates from RFC 7231 5.3.4");
    // (whether both answers occur depends on the group's skeletons: not a vacuity witness)
    kani::cover!(true, "decision compared with the reference model");
}

pub fn check_ae_lex(text: &'static [u8], expected: Option<bool>) {
    let mut h = HeaderMap::new();
    h.insert(header::ACCEPT_ENCODING, HeaderValue::model_from_static_bytes(text));
    let got = should_gzip(&h);
    if let Some(e) = expected {
        assert!(got == e, "C16: should_gzip deviates from RFC 7231 5.3.4 on a concrete value");
    }
}

/// Absent header.
#[kani::proof]
#[kani::unwind(4)]
fn ae_absent() {
    let h = HeaderMap::new();
    assert!(!should_gzip(&h), "C16: gzip chosen without Accept-Encoding");
}

#[path = "ae_gen.rs"]
mod gen;
