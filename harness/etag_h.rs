// Kani harnesses for src/etag.rs (C04 comparison functions and tag-list matching).
// Injected as `etag::verif_h`; shim configuration (needs a cheap HeaderMap).
#![allow(dead_code, unused_imports)]

use super::*;

#[path = "oracle.rs"]
mod oracle;

pub const NA: usize = 5;
pub const NL: usize = 8;

/// SCENARIO etag_eq_sym: a:[u8;6] na:usize b:[u8;6] nb:usize
#[kani::proof]
#[kani::unwind(9)]
fn etag_eq_sym() {
    let a: [u8; NA] = kani::any();
    let na: usize = kani::any();
    let b: [u8; NA] = kani::any();
    let nb: usize = kani::any();
    kani::assume(na <= NA && nb <= NA);
    let (a, b) = (&a[..na], &b[..nb]);
    let s = strong_eq(a, b);
    let w = weak_eq(a, b);
    // RFC 7232 2.3.2 over syntactically valid tags
    if oracle::is_entity_tag(a) && oracle::is_entity_tag(b) {
        assert!(s == oracle::tags_strong_eq(a, b), "C04: strong comparison deviates from RFC 7232 2.3.2");
        assert!(w == oracle::tags_weak_eq(a, b), "C04: weak comparison deviates from RFC 7232 2.3.2");
        kani::cover!(s, "strongly equal tags");
        kani::cover!(w && !s, "weakly but not strongly equal");
    }
    // for any bytes: strong implies weak and byte equality
    if s {
        assert!(w && na == nb, "C04/C05: strong_eq true for different byte strings");
    }
}

/// Reference scanner for `entity-tag *( "," OWS entity-tag )` with no whitespace before commas.
/// Returns the number of tags (0 = malformed / empty) and fills `pos` with (start, len).
fn ref_list(b: &[u8], pos: &mut [(usize, usize); 4]) -> Option<usize> {
    let mut n = 0;
    let mut i = 0;
    let mut k = 0;
    while k < 4 {
        let s = i;
        if i + 1 < b.len() && b[i] == b'W' && b[i + 1] == b'/' {
            i += 2;
        }
        if i >= b.len() || b[i] != b'"' {
            return None;
        }
        i += 1;
        let mut j = 0;
        while j < NL && i < b.len() && b[i] != b'"' {
            i += 1;
            j += 1;
        }
        if i >= b.len() {
            return None;
        }
        i += 1;
        pos[n] = (s, i - s);
        n += 1;
        if i == b.len() {
            return Some(n);
        }
        if b[i] != b',' {
            return None;
        }
        i += 1;
        let mut j = 0;
        while j < NL && i < b.len() && (b[i] == b' ' || b[i] == b'\t') {
            i += 1;
            j += 1;
        }
        if i == b.len() {
            return None; // trailing comma: not judged as a well-formed list
        }
        k += 1;
    }
    None
}

fn sub_eq(a: &[u8], b: &[u8]) -> bool {
    if a.len() != b.len() {
        return false;
    }
    let mut i = 0;
    while i < NL {
        if i < a.len() && a[i] != b[i] {
            return false;
        }
        i += 1;
    }
    true
}

/// The list iterator on arbitrary bytes: well-formed lists are split exactly into their
/// tags (commas and spaces inside quotes do not split), anything else is flagged corrupt or
/// yields only syntactic tags.
/// SCENARIO etag_list_sym: buf:[u8;9] n:usize
#[kani::proof]
#[kani::unwind(10)]
fn etag_list_sym() {
    let buf: [u8; NL] = kani::any();
    let n: usize = kani::any();
    kani::assume(n <= NL);
    // bytes a header value can contain at all (http::HeaderValue rejects the rest), so that a
    // counterexample is a request the native replayer can send
    let mut q = 0;
    while q < NL {
        kani::assume(buf[q] == 9 || (buf[q] >= 0x20 && buf[q] != 0x7f));
        q += 1;
    }
    let b = &buf[..n];
    let mut pos = [(0usize, 0usize); 4];
    let r = ref_list(b, &mut pos);
    let mut l = List::from(b);
    let mut k = 0;
    let mut count = 0;
    while k < 5 {
        match l.next() {
            Some(t) => {
                assert!(oracle::is_entity_tag(t), "C04: list iterator yielded something that is not an entity-tag");
                if let Some(m) = r {
                    assert!(count < m, "C04: more items than tags in the list");
                    let (s, len) = pos[count];
                    assert!(sub_eq(t, &b[s..s + len]), "C04: list item is not the tag at that position");
                }
                count += 1;
            }
            None => break,
        }
        k += 1;
    }
    if let Some(m) = r {
        assert!(count == m && !l.corrupt, "C04: well-formed tag list not split into its tags");
        kani::cover!(m == 2, "two tags");
    }
    kani::cover!(l.corrupt, "corrupt list");
    kani::cover!(r.is_some() && n == NL, "well-formed list using the whole buffer");
}

static mut HV_BUF: [[u8; NL]; 2] = [[0; NL]; 2];

/// A header value over STATIC storage (no heap copy: heap reads are opaque to the model checker).
#[allow(static_mut_refs)]
fn hv(b: &[u8], slot: usize) -> HeaderValue {
    unsafe {
        let mut i = 0;
        while i < NL {
            if i < b.len() {
                HV_BUF[slot][i] = b[i];
            }
            i += 1;
        }
        HeaderValue::model_from_static_bytes(&HV_BUF[slot][..b.len()])
    }
}

/// If-Match / If-None-Match against the entity's ETag: symbolic header bytes, symbolic ETag.
/// `which`: 0 = If-Match, 1 = If-None-Match (separate harnesses: the two problems are independent).
/// SCENARIO etag_match_*: buf:[u8;8] n:usize e:[u8;5] ne:usize
fn etag_match(which: u8, has_etag: bool) {
    let buf: [u8; NL] = kani::any();
    let n: usize = kani::any();
    let e: [u8; NA] = kani::any();
    let ne: usize = kani::any();
    kani::assume(n <= NL && ne <= NA);
    let b = &buf[..n];
    let e = &e[..ne];
    kani::assume(oracle::is_entity_tag(e));
    let mut pos = [(0usize, 0usize); 4];
    let r = ref_list(b, &mut pos);
    let star = n == 1 && b[0] == b'*';
    kani::assume(r.is_some() || star);

    let etag = if has_etag { Some(hv(e, 1)) } else { None };
    let mut strong = false;
    let mut weak = false;
    if let (Some(m), true) = (r, has_etag) {
        let mut i = 0;
        while i < 4 {
            if i < m {
                let t = &b[pos[i].0..pos[i].0 + pos[i].1];
                if oracle::tags_strong_eq(t, e) {
                    strong = true;
                }
                if oracle::tags_weak_eq(t, e) {
                    weak = true;
                }
            }
            i += 1;
        }
    }
    let mut h = HeaderMap::new();
    if which == 0 {
        h.insert(header::IF_MATCH, hv(b, 0));
        let am = any_match(&etag, &h);
        assert!(am == Ok(star || strong), "C04: If-Match decision deviates (strong comparison, `*` passes)");
        assert!(none_match(&etag, &h).is_none(), "C04: If-None-Match decision without the header");
    } else {
        h.insert(header::IF_NONE_MATCH, hv(b, 0));
        let nm = none_match(&etag, &h);
        assert!(nm == Some(!(star || weak)), "C04: If-None-Match decision deviates (weak comparison, `*` matches)");
        assert!(any_match(&etag, &h) == Ok(true), "C04: If-Match decision without the header");
    }
    // (a cover in unreachable code counts as unsatisfied: keep them reachable in every instance)
    kani::cover!(!has_etag || strong, "strong match");
    kani::cover!(!has_etag || (weak && !strong), "weak-only match");
    kani::cover!(r == Some(2) && !weak, "two tags, no match");
}

#[kani::proof]
#[kani::unwind(10)]
fn etag_match_im() {
    etag_match(0, true)
}
#[kani::proof]
#[kani::unwind(10)]
fn etag_match_inm() {
    etag_match(1, true)
}
#[kani::proof]
#[kani::unwind(10)]
fn etag_match_im_noetag() {
    etag_match(0, false)
}
#[kani::proof]
#[kani::unwind(10)]
fn etag_match_inm_noetag() {
    etag_match(1, false)
}
