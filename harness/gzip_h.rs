// Kani harnesses for src/gzip.rs + StreamingBodyBuilder in src/lib.rs (C17, C15 for
// streaming_body). Injected as `gzip::verif_h` so that the private `Inner` arms of
// `BodyWriter` are visible. Shim configuration: flate2's GzEncoder is a *marker* model,
// so "which coding was chosen" is decided here; what real gzip bytes look like is not.
#![allow(dead_code, unused_imports, static_mut_refs)]

use super::*;
use crate::verif_std as vs;
use http::header::{self, HeaderMap, HeaderValue};

#[path = "oracle.rs"]
mod oracle;

pub fn naive_memchr(x: u8, text: &[u8]) -> Option<usize> {
    let mut i = 0;
    while i < text.len() {
        if text[i] == x {
            return Some(i);
        }
        i += 1;
    }
    None
}

pub struct D(pub Vec<u8>);
impl From<Vec<u8>> for D {
    fn from(v: Vec<u8>) -> Self {
        D(v)
    }
}
pub struct E;

fn count(h: &HeaderMap, n: &http::header::HeaderName) -> usize {
    let mut c = 0;
    for (k, _) in h.iter() {
        if k == n {
            c += 1;
        }
    }
    c
}

/// One Accept-Encoding text with the decision RFC 7231 5.3.4 gives (computed from the
/// reference model on the concrete text, not from should_gzip).
fn ae_case(k: u8) -> (Option<&'static str>, bool) {
    match k {
        0 => (None, false),
        1 => (Some("gzip"), true),
        2 => (Some("identity"), false),
        3 => (Some("gzip;q=0"), false),
        4 => (Some("*"), true),
        5 => (Some("identity;q=0.5, gzip;q=1.0"), true),
        6 => (Some("identity;q=1.0, gzip;q=0.5"), false),
        7 => (Some("br, deflate"), false),
        _ => (Some(""), false),
    }
}

fn check_build(k: u8) {
    let method: u8 = kani::any();
    let level: u32 = kani::any();
    let chunk: usize = kani::any();
    let as_parts: bool = kani::any();
    let set_level: bool = kani::any();
    kani::assume(method <= 2);
    kani::assume(chunk >= 1 && chunk <= 4);
    // documented domain of with_gzip_level (and the property's quantifier): 0..=9. Larger values
    // reach flate2::Compression::new unchecked, which is outside this crate's contract.
    kani::assume(level <= 9);
    let (ae, want_gzip) = ae_case(k);
    let m = match method {
        0 => http::Method::GET,
        1 => http::Method::HEAD,
        _ => http::Method::POST,
    };
    let mut req = http::Request::new(());
    *req.method_mut() = m;
    if let Some(t) = ae {
        req.headers_mut().insert(header::ACCEPT_ENCODING, HeaderValue::from_static(t));
    }
    let mut b = if as_parts {
        let (parts, _) = req.into_parts();
        crate::streaming_body(&parts)
    } else {
        crate::streaming_body(&req)
    };
    b = b.with_chunk_size(chunk);
    if set_level {
        b = b.with_gzip_level(level);
    }
    let eff_level = if set_level { level } else { 6 };
    let (resp, w) = b.build::<D, E>();
    let h = resp.headers();
    assert!(count(h, &header::VARY) == 1, "C17: not exactly one Vary header");
    assert!(h.get(header::VARY).unwrap().as_bytes().eq_ignore_ascii_case(b"accept-encoding"), "C17: Vary is not accept-encoding");
    let expect_gzip = want_gzip && eff_level > 0;
    let ce = h.get(header::CONTENT_ENCODING);
    if expect_gzip {
        assert!(count(h, &header::CONTENT_ENCODING) == 1 && ce.unwrap().as_bytes() == b"gzip", "C17: gzip negotiated but Content-Encoding: gzip missing");
    } else {
        assert!(ce.is_none(), "C17: Content-Encoding present although gzip was not negotiated (or level 0)");
    }
    assert!(resp.status().as_u16() == 200, "streaming_body status");
    match (&w, method == 1) {
        (None, true) => {}
        (Some(_), false) => {}
        (None, false) => assert!(false, "C15/C17: no writer for a method other than HEAD"),
        (Some(_), true) => assert!(false, "C15: writer returned for HEAD"),
    }
    if let Some(w) = &w {
        match &w.0 {
            Inner::Gzipped(g) => {
                assert!(expect_gzip, "C17: gzip encoder used although the headers say identity");
                assert!(g.model_level() == eff_level, "C17: encoder created with a different level");
            }
            Inner::Raw(_) => assert!(!expect_gzip, "C17: headers say gzip but the raw writer is used"),
            Inner::Dead => assert!(false, "C17: new writer is dead"),
        }
    }
    // vacuity witnesses that are satisfiable in every instance (which arm is used depends on the
    // instance's Accept-Encoding text and is asserted above)
    kani::cover!(w.is_some(), "a writer was returned");
    kani::cover!(w.is_none(), "HEAD: no writer");
    std::mem::forget(w);
    std::mem::forget(resp);
}

macro_rules! build_harness {
    ($name:ident, $k:expr) => {
        /// SCENARIO $name: method:u8 level:u32 chunk:usize as_parts:bool set_level:bool
        #[kani::proof]
        #[kani::unwind(30)]
        #[kani::stub(core::slice::memchr::memchr, naive_memchr)]
        pub fn $name() {
            check_build($k)
        }
    };
}
build_harness!(sb_build_absent, 0);
build_harness!(sb_build_gzip, 1);
build_harness!(sb_build_identity, 2);
build_harness!(sb_build_gzip_q0, 3);
build_harness!(sb_build_star, 4);
build_harness!(sb_build_pref_gzip, 5);
build_harness!(sb_build_pref_identity, 6);
build_harness!(sb_build_others, 7);
build_harness!(sb_build_empty, 8);

/// C11 (writer side): once a BodyWriter has been aborted, every later write and flush fails,
/// for the raw and the gzip arm alike.
fn dead_after_abort(gz: bool) {
    use vs::io::Write;
    let (cw, r) = crate::chunker::Writer::<D, E>::with_chunk_size(4);
    let mut w = if gz {
        BodyWriter::gzipped(cw, flate2::Compression::new(6))
    } else {
        BodyWriter::raw(cw)
    };
    let data = [1u8, 2, 3];
    if !gz {
        let r0 = w.write(&data[..1]);
        assert!(r0.is_ok(), "C08: write to a live body failed");
        std::mem::forget(r0);
    }
    w.abort(E);
    // a write that does NOT complete a chunk: only the writer's own Dead state can refuse it
    let r1 = w.write(&data[..1]);
    let r2 = w.flush();
    assert!(r1.is_err() && r2.is_err(), "C11: write or flush succeeded after abort");
    std::mem::forget(r1);
    std::mem::forget(r2);
    w.abort(E); // idempotent
    std::mem::forget(w);
    std::mem::forget(r);
}

#[kani::proof]
#[kani::unwind(12)]
pub fn sb_dead_after_abort_raw() {
    dead_after_abort(false)
}

#[kani::proof]
#[kani::unwind(12)]
pub fn sb_dead_after_abort_gz() {
    dead_after_abort(true)
}
