// Shared harness support for the `shim` configuration (engine K2): the symbolic entity, its
// scripted streams, the body drain loop and header read-back helpers.
//
// Everything nondeterministic is DRAWN UP FRONT into plain values (see `Draw`), in a fixed
// order, so that a Kani concrete-playback vector decodes mechanically into a scenario that
// the native replayer (/verif/replay, real dependencies, public API only) can re-run.
#![allow(dead_code, static_mut_refs, unused_imports)]

use crate::{BoxError, Entity};
use bytes::Buf;
use http::header::{self, HeaderMap, HeaderName, HeaderValue};
use std::ops::Range;
use std::pin::Pin;
use std::task::{Context, Poll};
use std::time::{Duration, SystemTime, UNIX_EPOCH};

/// Same contract as `core::slice::memchr::memchr`, naive loop (the SWAR original branches on
/// pointer alignment, which is not concrete under the model checker).
pub fn naive_memchr(x: u8, text: &[u8]) -> Option<usize> {
    // nested loops of <= 8 iterations (texts up to 64 bytes) keep the global unwinding bound small
    assert!(text.len() <= 64, "harness: memchr haystack longer than 64 bytes");
    let mut o = 0;
    while o < 8 {
        let mut i = 0;
        while i < 8 {
            let k = o * 8 + i;
            if k < text.len() && text[k] == x {
                return Some(k);
            }
            i += 1;
        }
        if (o + 1) * 8 >= text.len() {
            break;
        }
        o += 1;
    }
    None
}

// ---------------------------------------------------------------------------------------
// Data / error types the harness instantiates `serve` with.

/// A chunk of body data. `Ent` *denotes* entity bytes `start..start+len` without holding
/// them, so entities of any length up to 2^64-1 have position-dependent content.
pub enum Chunk {
    Ent { start: u64, len: u64 },
    Lit(Vec<u8>),
    Stat(&'static [u8]),
}
impl Buf for Chunk {
    fn remaining(&self) -> usize {
        match self {
            Chunk::Ent { len, .. } => *len as usize,
            Chunk::Lit(v) => v.len(),
            Chunk::Stat(s) => s.len(),
        }
    }
    fn chunk(&self) -> &[u8] {
        match self {
            Chunk::Ent { .. } => &[], // never read by http-serve
            Chunk::Lit(v) => &v[..],
            Chunk::Stat(s) => s,
        }
    }
    fn advance(&mut self, _cnt: usize) {}
}
impl From<Vec<u8>> for Chunk {
    fn from(v: Vec<u8>) -> Self {
        Chunk::Lit(v)
    }
}
impl From<&'static [u8]> for Chunk {
    fn from(v: &'static [u8]) -> Self {
        Chunk::Stat(v)
    }
}

/// Error type: what kind of error it was is remembered in a static (the box is leaked so
/// that no `dyn Error` drop glue is executed).
pub struct HErr {
    pub injected: bool,
}
pub static mut INJECTED_ERRS: u32 = 0;
impl From<BoxError> for HErr {
    fn from(b: BoxError) -> Self {
        std::mem::forget(b);
        unsafe {
            INJECTED_ERRS += 1;
        }
        HErr { injected: true }
    }
}

// ---------------------------------------------------------------------------------------
// Scripted entity streams.

pub const EV_PENDING: u8 = 0;
pub const EV_CHUNK: u8 = 1;
pub const EV_ERR: u8 = 2;
pub const EV_END: u8 = 3;

#[derive(Clone, Copy)]
pub struct Ev {
    pub kind: u8,
    pub n: u64,
}

/// Events per `get_range` call before the stream's default tail.
pub const K_EV: usize = 2;
/// Number of `get_range` calls that have their own script.
pub const K_CALLS: usize = 3;

pub static mut SCRIPTS: [[Ev; K_EV]; K_CALLS] = [[Ev { kind: 0, n: 0 }; K_EV]; K_CALLS];
/// false: streams honour the Entity contract (exact length or early Err);
/// true: streams may also end early or over-deliver.
pub static mut FAULTY: bool = false;
pub static mut CALLS: usize = 0;
pub static mut CALL_LOG: [(u64, u64); 4] = [(0, 0); 4];
pub static mut STREAM_POLLS_AFTER_FINISH: u32 = 0;

pub struct ScriptStream {
    pos: u64,
    end: u64,
    call: usize,
    i: usize,
    finished: bool,
}
impl futures_core::Stream for ScriptStream {
    type Item = Result<Chunk, HErr>;
    fn poll_next(mut self: Pin<&mut Self>, _cx: &mut Context<'_>) -> Poll<Option<Self::Item>> {
        if self.finished {
            // "the entity's own streams stay finished once they have finished or failed"
            return Poll::Ready(None);
        }
        let faulty = unsafe { FAULTY };
        let remaining = self.end - self.pos;
        if !faulty && remaining == 0 {
            self.finished = true;
            return Poll::Ready(None);
        }
        if self.i < K_EV && self.call < K_CALLS {
            let ev = unsafe { SCRIPTS[self.call][self.i] };
            self.i += 1;
            let kind = if faulty { ev.kind % 4 } else { ev.kind % 3 };
            if kind == EV_PENDING {
                return Poll::Pending;
            }
            if kind == EV_ERR {
                self.finished = true;
                return Poll::Ready(Some(Err(HErr { injected: false })));
            }
            if kind == EV_END {
                self.finished = true;
                return Poll::Ready(None);
            }
            // chunk
            let n = if faulty || ev.n <= remaining { ev.n } else { remaining };
            let start = self.pos;
            self.pos = self.pos.wrapping_add(n);
            return Poll::Ready(Some(Ok(Chunk::Ent { start, len: n })));
        }
        // default tail
        if faulty || remaining == 0 {
            self.finished = true;
            return Poll::Ready(None);
        }
        let start = self.pos;
        self.pos = self.end;
        Poll::Ready(Some(Ok(Chunk::Ent { start, len: remaining })))
    }
}

/// A scripted stream positioned anywhere inside its range (pre-states of the multipart step
/// harnesses), already coerced to the `dyn` type http-serve stores.
pub fn script_stream_at(pos: u64, end: u64, call: usize) -> Pin<Box<dyn futures_core::Stream<Item = Result<Chunk, HErr>> + Send>> {
    Box::pin(ScriptStream { pos, end, call, i: 0, finished: false })
}

// ---------------------------------------------------------------------------------------
// The entity.

pub const ETAG_NONE: u8 = 0;
pub const ETAG_STRONG: u8 = 1; // "a"
pub const ETAG_WEAK: u8 = 2; // W/"a"
pub const ETAG_COMMA: u8 = 3; // "a, b"

pub fn etag_text(kind: u8) -> Option<&'static str> {
    match kind {
        ETAG_STRONG => Some("\"a\""),
        ETAG_WEAK => Some("W/\"a\""),
        ETAG_COMMA => Some("\"a, b\""),
        _ => None,
    }
}

pub struct HEnt {
    pub len: u64,
    pub etag: u8,
    pub etag_bytes: Option<Vec<u8>>, // overrides `etag` when Some (symbolic tags)
    pub mtime: Option<(u64, u32)>,
    pub nhdr: u8,
}

pub const EH0: (&str, &str) = ("content-type", "text/plain");
pub const EH1: (&str, &str) = ("content-language", "en");
pub const EH2: (&str, &str) = ("content-language", "de");

impl Entity for HEnt {
    type Error = HErr;
    type Data = Chunk;
    fn len(&self) -> u64 {
        self.len
    }
    fn get_range(
        &self,
        range: Range<u64>,
    ) -> Pin<Box<dyn futures_core::Stream<Item = Result<Chunk, HErr>> + Send + Sync>> {
        let call = unsafe {
            let c = CALLS;
            // no symbolic array index
            if c == 0 {
                CALL_LOG[0] = (range.start, range.end);
            } else if c == 1 {
                CALL_LOG[1] = (range.start, range.end);
            } else if c == 2 {
                CALL_LOG[2] = (range.start, range.end);
            } else if c == 3 {
                CALL_LOG[3] = (range.start, range.end);
            }
            CALLS += 1;
            c
        };
        // `-Z restrict-vtable` resolves a `dyn` call only to types it saw being coerced to exactly
        // that `dyn` type. http-serve stores this stream as `dyn Stream + Send` (it drops the
        // `Sync` bound), so that coercion is shown to the compiler once, on a value that is
        // immediately forgotten.
        {
            let reg: Pin<Box<dyn futures_core::Stream<Item = Result<Chunk, HErr>> + Send>> =
                Box::pin(ScriptStream { pos: 0, end: 0, call: K_CALLS, i: K_EV, finished: true });
            std::mem::forget(reg);
        }
        Box::pin(ScriptStream { pos: range.start, end: range.end, call, i: 0, finished: false })
    }
    fn add_headers(&self, h: &mut HeaderMap) {
        if self.nhdr >= 1 {
            h.insert(header::CONTENT_TYPE, HeaderValue::from_static(EH0.1));
        }
        if self.nhdr >= 2 {
            h.insert(header::CONTENT_LANGUAGE, HeaderValue::from_static(EH1.1));
        }
        if self.nhdr >= 3 {
            // a repeated header field: entities may supply several values for one name
            h.append(header::CONTENT_LANGUAGE, HeaderValue::from_static(EH2.1));
        }
    }
    fn etag(&self) -> Option<HeaderValue> {
        if let Some(ref b) = self.etag_bytes {
            return Some(HeaderValue::model_from_inline(&b[..]));
        }
        etag_text(self.etag).map(HeaderValue::from_static)
    }
    fn last_modified(&self) -> Option<SystemTime> {
        self.mtime.map(|(s, n)| UNIX_EPOCH + Duration::new(s, n))
    }
}

// ---------------------------------------------------------------------------------------
// Clock stub.

pub static mut NOW: (u64, u32) = (0, 0);
/// Stub for `std::time::SystemTime::now`.
pub fn stub_now() -> SystemTime {
    let (s, n) = unsafe { NOW };
    UNIX_EPOCH + Duration::new(s, n)
}

// ---------------------------------------------------------------------------------------
// Draining a body and recording what it did.

pub const FR_NONE: u8 = 0;
pub const FR_ENT: u8 = 1;
pub const FR_LIT: u8 = 2;
pub const FR_STAT: u8 = 3;
pub const FR_ERR: u8 = 4;
pub const FR_END: u8 = 5;
pub const FR_PENDING: u8 = 6;

#[derive(Clone, Copy)]
pub struct Frame {
    pub kind: u8,
    pub a: u64, // Ent: start ; Lit/Stat: length
    pub b: u64, // Ent: len
}

pub const MAX_POLLS: usize = 12;

/// What each poll of a drain returned, indexed by the poll number (a constant after loop
/// unrolling: no symbolic array indices), plus running totals and the C12/C20 monitors.
pub struct Drain {
    pub ev: [Frame; MAX_POLLS],
    pub lit: [Option<Vec<u8>>; MAX_POLLS],
    pub stat: [Option<&'static [u8]>; MAX_POLLS],
    pub polls: usize,
    pub nframes: usize,
    pub total: u64,
    pub overflow_total: bool,
    pub pendings: u32,
    pub ended: bool,
    pub errored: bool,
    pub data_after_terminal: bool,
    pub err_after_terminal: bool,
    pub hint_violations: u32,
    pub eos_violations: u32,
}

impl Drain {
    pub fn new() -> Drain {
        Drain {
            ev: [Frame { kind: FR_NONE, a: 0, b: 0 }; MAX_POLLS],
            lit: [const { None }; MAX_POLLS],
            stat: [None; MAX_POLLS],
            polls: 0,
            nframes: 0,
            total: 0,
            overflow_total: false,
            pendings: 0,
            ended: false,
            errored: false,
            data_after_terminal: false,
            err_after_terminal: false,
            hint_violations: 0,
            eos_violations: 0,
        }
    }
    pub fn terminal(&self) -> bool {
        self.ended || self.errored
    }
}

pub fn noop_cx() -> Context<'static> {
    Context::from_waker(std::task::Waker::noop())
}

/// Polls `body` `polls` times (`polls` <= MAX_POLLS, a constant at every call site); after the
/// first terminal event it keeps polling to check that the body stays terminated (C20).
/// Before every poll it samples size_hint()/is_end_stream() for the C12 monitor:
///   * exact hint must equal announced - delivered so far (`expect_exact`: Some(announced)),
///   * is_end_stream() => no later data and no later error.
pub fn drain(
    body: &mut Pin<&mut crate::body::Body<Chunk, HErr>>,
    polls: usize,
    expect_exact: Option<u64>,
    d: &mut Drain,
) {
    let mut cx = noop_cx();
    let mut said_eos = false;
    d.polls = polls;
    let mut k = 0;
    while k < polls {
        // C12 monitor
        let hint = http_body::Body::size_hint(&**body);
        let eos = http_body::Body::is_end_stream(&**body);
        if let Some(announced) = expect_exact {
            if !d.errored {
                let owed = announced.wrapping_sub(d.total);
                if !(hint.lower() == owed && hint.upper() == Some(owed)) {
                    d.hint_violations += 1;
                }
            }
        }
        if eos {
            said_eos = true;
        }
        match http_body::Body::poll_frame(body.as_mut(), &mut cx) {
            Poll::Ready(Some(Ok(f))) => {
                if d.terminal() {
                    d.data_after_terminal = true;
                }
                if said_eos {
                    d.eos_violations += 1;
                }
                match f.into_data() {
                    Ok(c) => {
                        let n = c.remaining() as u64;
                        match d.total.checked_add(n) {
                            Some(t) => d.total = t,
                            None => d.overflow_total = true,
                        }
                        d.nframes += 1;
                        match c {
                            Chunk::Ent { start, len } => {
                                d.ev[k] = Frame { kind: FR_ENT, a: start, b: len };
                            }
                            Chunk::Lit(v) => {
                                d.ev[k] = Frame { kind: FR_LIT, a: v.len() as u64, b: 0 };
                                d.lit[k] = Some(v);
                            }
                            Chunk::Stat(s) => {
                                d.ev[k] = Frame { kind: FR_STAT, a: s.len() as u64, b: 0 };
                                d.stat[k] = Some(s);
                            }
                        }
                    }
                    Err(_) => {}
                }
            }
            Poll::Ready(Some(Err(e))) => {
                std::mem::forget(e);
                if d.terminal() {
                    d.err_after_terminal = true;
                }
                if said_eos {
                    d.eos_violations += 1;
                }
                d.errored = true;
                d.ev[k].kind = FR_ERR;
            }
            Poll::Ready(None) => {
                d.ended = true;
                d.ev[k].kind = FR_END;
            }
            Poll::Pending => {
                d.pendings += 1;
                d.ev[k].kind = FR_PENDING;
            }
        }
        k += 1;
    }
}

// ---------------------------------------------------------------------------------------
// Reading response headers back.

/// One-pass snapshot of a response header map: for each header the harnesses care about,
/// how many times it occurs and the bytes of its first value. (Looking headers up one by
/// one costs a scan of the map per lookup on symbolic contents.)
pub const S_ACCEPT_RANGES: usize = 0;
pub const S_ETAG: usize = 1;
pub const S_DATE: usize = 2;
pub const S_LAST_MODIFIED: usize = 3;
pub const S_CONTENT_LENGTH: usize = 4;
pub const S_CONTENT_RANGE: usize = 5;
pub const S_CONTENT_TYPE: usize = 6;
pub const S_CONTENT_LANGUAGE: usize = 7;
pub const S_ALLOW: usize = 8;
pub const S_VARY: usize = 9;
pub const S_CONTENT_ENCODING: usize = 10;
pub const S_N: usize = 11;

pub struct Snap<'a> {
    pub count: [u8; S_N],
    pub val: [Option<&'a [u8]>; S_N],
    /// second Content-Language value (entities with a repeated header field)
    pub lang2: Option<&'a [u8]>,
    pub others: u8,
    pub total: u8,
}

pub fn snap(h: &HeaderMap) -> Snap<'_> {
    // the model map stores each name in its own slot: every lookup is a constant-index access
    let mut s = Snap { count: [0; S_N], val: [None; S_N], lang2: None, others: 0, total: h.len() as u8 };
    {
        let mut it = h.get_all(header::CONTENT_LANGUAGE).iter();
        let _ = it.next();
        s.lang2 = it.next().map(|v| v.as_bytes());
    }
    macro_rules! take {
        ($i:expr, $name:expr) => {
            s.count[$i] = h.model_count($name) as u8;
            s.val[$i] = h.get($name).map(|v| v.as_bytes());
        };
    }
    take!(S_ACCEPT_RANGES, header::ACCEPT_RANGES);
    take!(S_ETAG, header::ETAG);
    take!(S_DATE, header::DATE);
    take!(S_LAST_MODIFIED, header::LAST_MODIFIED);
    take!(S_CONTENT_LENGTH, header::CONTENT_LENGTH);
    take!(S_CONTENT_RANGE, header::CONTENT_RANGE);
    take!(S_CONTENT_TYPE, header::CONTENT_TYPE);
    take!(S_CONTENT_LANGUAGE, header::CONTENT_LANGUAGE);
    take!(S_ALLOW, header::ALLOW);
    take!(S_VARY, header::VARY);
    take!(S_CONTENT_ENCODING, header::CONTENT_ENCODING);
    let mut known = 0u8;
    let mut j = 0;
    while j < S_N {
        known += s.count[j];
        j += 1;
    }
    s.others = s.total - known;
    s
}

pub fn hdr<'a>(h: &'a HeaderMap, name: &HeaderName) -> Option<&'a [u8]> {
    h.get(name).map(|v| v.as_bytes())
}

pub fn count_hdr(h: &HeaderMap, name: &HeaderName) -> usize {
    let mut n = 0;
    for (k, _) in h.iter() {
        if k == name {
            n += 1;
        }
    }
    n
}

pub fn bytes_eq(a: &[u8], b: &[u8]) -> bool {
    if a.len() != b.len() || a.len() > 64 {
        return false;
    }
    let mut o = 0;
    while o < 8 {
        let mut i = 0;
        while i < 8 {
            let k = o * 8 + i;
            if k < a.len() && a[k] != b[k] {
                return false;
            }
            i += 1;
        }
        if (o + 1) * 8 >= a.len() {
            break;
        }
        o += 1;
    }
    true
}

/// Parses a decimal number of at most 20 digits starting at `*i`, advancing `*i`.
/// Nested loops (5 x 4 digits, +1) so that a small global unwinding bound is enough.
pub fn take_decimal(b: &[u8], i: &mut usize) -> Option<u64> {
    let mut v: u128 = 0;
    let mut nd = 0;
    let mut stop = false;
    let mut o = 0;
    while o < 6 {
        let mut k = 0;
        while k < 4 {
            if !stop && *i < b.len() && b[*i] >= b'0' && b[*i] <= b'9' {
                v = v * 10 + (b[*i] - b'0') as u128;
                *i += 1;
                nd += 1;
            } else {
                stop = true;
            }
            k += 1;
        }
        if stop {
            break;
        }
        o += 1;
    }
    if nd == 0 || nd > 20 || v > u64::MAX as u128 {
        return None;
    }
    Some(v as u64)
}

pub fn take_lit(b: &[u8], i: &mut usize, lit: &[u8]) -> bool {
    // literals are at most 8 bytes
    let mut k = 0;
    while k < lit.len() {
        if *i + k >= b.len() || b[*i + k] != lit[k] {
            return false;
        }
        k += 1;
    }
    *i += lit.len();
    true
}

// ---------------------------------------------------------------------------------------
// Numeral model. Rendering a fully symbolic u64 in decimal and reading it back is hard for
// the SAT back end (chains of division by ten) and makes every header value a buffer of
// symbolic length. In the serve-level harnesses `<u64 as Display>::fmt` -- std's code, not
// http-serve's -- is therefore stubbed by a fixed-width rendering: `#` followed by 16
// characters `a`..`p`, one per nibble. Format strings, argument order and every length
// computation of http-serve remain the real code; only the glyphs of a number change.
// (Real decimal rendering through the same format strings is checked in fmt_decimal_*.)

pub const TOK: usize = 17;

pub fn num_token(x: u64) -> [u8; TOK] {
    let mut out = [b'#'; TOK];
    let mut o = 0;
    while o < 4 {
        let mut q = 0;
        while q < 4 {
            let i = o * 4 + q;
            out[1 + i] = b'a' + ((x >> (60 - 4 * i)) & 0xf) as u8;
            q += 1;
        }
        o += 1;
    }
    out
}

/// Stub for `<u64 as core::fmt::Display>::fmt`.
pub fn stub_u64_display(x: &u64, f: &mut std::fmt::Formatter<'_>) -> std::fmt::Result {
    let t = num_token(*x);
    f.write_str(unsafe { std::str::from_utf8_unchecked(&t) })
}

/// Reads a numeral token at the constant offset `at`.
pub fn token_at(b: &[u8], at: usize) -> Option<u64> {
    if at + TOK > b.len() || b[at] != b'#' {
        return None;
    }
    let mut v: u64 = 0;
    let mut o = 0;
    while o < 4 {
        let mut q = 0;
        while q < 4 {
            let c = b[at + 1 + o * 4 + q];
            if c < b'a' || c > b'p' {
                return None;
            }
            v = (v << 4) | (c - b'a') as u64;
            q += 1;
        }
        o += 1;
    }
    Some(v)
}

/// literal `lit` (<= 8 bytes) at constant offset `at`
pub fn lit_at(b: &[u8], at: usize, lit: &[u8]) -> bool {
    if at + lit.len() > b.len() {
        return false;
    }
    let mut k = 0;
    while k < lit.len() {
        if b[at + k] != lit[k] {
            return false;
        }
        k += 1;
    }
    true
}

/// `bytes a-b/T` -> (a, b, T)
pub fn parse_content_range(b: &[u8]) -> Option<(u64, u64, u64)> {
    if b.len() != 6 + 3 * TOK + 2 || !lit_at(b, 0, b"bytes ") {
        return None;
    }
    let a = token_at(b, 6)?;
    if b[6 + TOK] != b'-' {
        return None;
    }
    let e = token_at(b, 6 + TOK + 1)?;
    if b[6 + 2 * TOK + 1] != b'/' {
        return None;
    }
    let t = token_at(b, 6 + 2 * TOK + 2)?;
    Some((a, e, t))
}

/// `bytes */T` -> T
pub fn parse_unsat_content_range(b: &[u8]) -> Option<u64> {
    if b.len() != 8 + TOK || !lit_at(b, 0, b"bytes */") {
        return None;
    }
    token_at(b, 8)
}

pub fn parse_whole_decimal(b: &[u8]) -> Option<u64> {
    if b.len() != TOK {
        return None;
    }
    token_at(b, 0)
}

/// Resets all harness statics (each harness starts from them anyway; explicit for clarity).
pub fn reset() {
    unsafe {
        CALLS = 0;
        INJECTED_ERRS = 0;
        FAULTY = false;
    }
}

/// `fixed[c * K_EV + i]`: 255 = the event kind is symbolic; otherwise the kind is this constant
/// (the symbolic byte is still drawn, and assumed equal, so the playback layout is the same).
/// Constant kinds keep the control flow of a long multipart drain concrete.
pub const SCRIPT_SYMBOLIC: [u8; K_EV * K_CALLS] = [255; K_EV * K_CALLS];

pub fn draw_script(faulty: bool) {
    draw_script_fixed(faulty, SCRIPT_SYMBOLIC)
}

pub fn draw_script_fixed(faulty: bool, fixed: [u8; K_EV * K_CALLS]) {
    let mut c = 0;
    while c < K_CALLS {
        let mut i = 0;
        while i < K_EV {
            let kind_sym: u8 = kani::any();
            let n: u64 = kani::any();
            kani::assume(kind_sym < 4);
            let f = fixed[c * K_EV + i];
            let kind = if f == 255 {
                kind_sym
            } else {
                kani::assume(kind_sym == f);
                f
            };
            unsafe {
                SCRIPTS[c][i] = Ev { kind, n };
            }
            i += 1;
        }
        c += 1;
    }
    unsafe {
        FAULTY = faulty;
    }
}
