// Kani harness for src/dir.rs `validate_path` (C19, the part that does not need a file
// system). Injected as `dir::verif_h`; built with `--features dir`; the memchr crate is the
// model crate (the real one reaches CPUID inline assembly).
#![allow(dead_code)]
use http::header::{self, HeaderMap, HeaderValue};

fn check_path<const N: usize>() {
    let buf: [u8; N] = kani::any();
    let n: usize = kani::any();
    kani::assume(n <= N);
    let mut i = 0;
    while i < N {
        kani::assume(buf[i] < 0x80);
        i += 1;
    }
    let b = &buf[..n];
    let s = unsafe { std::str::from_utf8_unchecked(b) };
    let r = super::validate_path(s);
    // reference: NUL anywhere, leading '/', or a segment equal to ".."
    let mut bad = n > 0 && b[0] == b'/';
    let mut seg_start = 0;
    let mut j = 0;
    while j <= N {
        if j <= n {
            if j == n || b[j] == b'/' {
                if j - seg_start == 2 && b[seg_start] == b'.' && b[seg_start + 1] == b'.' {
                    bad = true;
                }
                seg_start = j + 1;
            }
            if j < n && b[j] == 0 {
                bad = true;
            }
        }
        j += 1;
    }
    assert!(r.is_err() == bad, "C19: validate_path accepts/rejects a path against the NUL / absolute / `..`-segment rule");
    kani::cover!(r.is_ok() && n == N, "accepted path of the maximum length");
    kani::cover!(r.is_err(), "rejected path");
}

/// SCENARIO validate_path_sym: buf:[u8;7] n:usize
#[kani::proof]
#[kani::unwind(10)]
fn validate_path_sym() {
    check_path::<7>()
}

/// thorough tier: paths of up to 10 bytes (three two-byte segments with separators and more)
/// SCENARIO validate_path_sym10: buf:[u8;10] n:usize
#[kani::proof]
#[kani::unwind(13)]
fn validate_path_sym10() {
    check_path::<10>()
}

/// `Node::encoding`, `encoding_varies`, `add_encoding_headers` for every (auto_gzip, is_gzipped)
/// and a header map that may already carry stale Content-Encoding / Vary values. The `File` is
/// never used and never closed, the `Metadata` is an all-zero placeholder that is never read
/// (only the operating system can produce a real one); both are forgotten.
/// SCENARIO node_encoding: auto_gzip:bool is_gzipped:bool stale_ce:bool stale_vary:bool
#[kani::proof]
#[kani::unwind(20)]
fn node_encoding() {
    use std::os::unix::io::FromRawFd;
    let auto_gzip: bool = kani::any();
    let is_gzipped: bool = kani::any();
    let stale_ce: bool = kani::any();
    let stale_vary: bool = kani::any();
    // invariant of every Node FsDir::get builds: the .gz sibling is only tried under auto_gzip
    kani::assume(!is_gzipped || auto_gzip);
    let node = super::Node {
        file: unsafe { std::fs::File::from_raw_fd(3) },
        metadata: unsafe { std::mem::zeroed() },
        auto_gzip,
        is_gzipped,
    };
    let mut h = HeaderMap::new();
    if stale_ce {
        h.insert(header::CONTENT_ENCODING, HeaderValue::from_static("br"));
    }
    if stale_vary {
        h.insert(header::VARY, HeaderValue::from_static("cookie"));
    }
    let enc = node.encoding();
    assert!(enc.is_some() == is_gzipped, "C19: encoding() reports gzip exactly when the .gz sibling was substituted");
    if let Some(e) = enc {
        assert!(e.len() == 4 && e.as_bytes()[0] == b'g' && e.as_bytes()[1] == b'z' && e.as_bytes()[2] == b'i' && e.as_bytes()[3] == b'p',
                "C19: encoding() names gzip");
    }
    assert!(node.encoding_varies() == auto_gzip, "C19: encoding_varies() is true exactly when automatic gzip is enabled");
    node.add_encoding_headers(&mut h);
    let ce = h.get(header::CONTENT_ENCODING);
    if is_gzipped {
        assert!(h.model_count(header::CONTENT_ENCODING) == 1, "C19: add_encoding_headers leaves exactly one Content-Encoding for a substituted .gz file");
        let v = ce.unwrap().as_bytes();
        assert!(v.len() == 4 && v[0] == b'g' && v[1] == b'z' && v[2] == b'i' && v[3] == b'p',
                "C19: add_encoding_headers reports Content-Encoding: gzip for a substituted .gz file");
    } else {
        assert!(ce.is_some() == stale_ce, "C19: add_encoding_headers adds no Content-Encoding when the plain file was opened");
    }
    let vary = h.get(header::VARY);
    if auto_gzip {
        assert!(h.model_count(header::VARY) == 1, "C19: add_encoding_headers leaves exactly one Vary when automatic gzip is enabled");
        let v = vary.unwrap().as_bytes();
        let want = b"accept-encoding";
        assert!(v.len() == want.len(), "C19: Vary: accept-encoding when automatic gzip is enabled");
        let mut i = 0;
        while i < want.len() {
            assert!(v[i] == want[i], "C19: Vary: accept-encoding when automatic gzip is enabled");
            i += 1;
        }
    } else {
        assert!(vary.is_some() == stale_vary, "C19: no Vary is added when automatic gzip is disabled");
    }
    kani::cover!(is_gzipped && auto_gzip, "substituted node");
    kani::cover!(!is_gzipped && !auto_gzip, "plain node without auto gzip");
    kani::cover!(!is_gzipped && auto_gzip, "plain node under auto gzip");
    std::mem::forget(h);
    std::mem::forget(node);
}

/// thorough tier: paths of up to 13 bytes (four two-byte segments with separators and more)
/// SCENARIO validate_path_sym13: buf:[u8;13] n:usize
#[kani::proof]
#[kani::unwind(16)]
fn validate_path_sym13() {
    check_path::<13>()
}

/// thorough tier: paths of up to 16 bytes
/// SCENARIO validate_path_sym16: buf:[u8;16] n:usize
#[kani::proof]
#[kani::unwind(19)]
fn validate_path_sym16() {
    check_path::<16>()
}
