// Kani harness for src/dir.rs `validate_path` (C19, the part that does not need a file
// system). Injected as `dir::verif_h`; built with `--features dir`; the memchr crate is the
// model crate (the real one reaches CPUID inline assembly).
#![allow(dead_code)]

fn check_path<const N: usize>() {
    let buf: [u8; N] = kani::any();
    let n: usize = kani::any();
    kani::assume(n <= N);
    let mut i = 0;
    while i < N {
        kani::assume(buf[i] < 0x80);
        i += 1;
    }
    let b = &buf[..n];
    let s = unsafe { std::str::from_utf8_unchecked(b) };
    let r = super::validate_path(s);
    // reference: NUL anywhere, leading '/', or a segment equal to ".."
    let mut bad = n > 0 && b[0] == b'/';
    let mut seg_start = 0;
    let mut j = 0;
    while j <= N {
        if j <= n {
            if j == n || b[j] == b'/' {
                if j - seg_start == 2 && b[seg_start] == b'.' && b[seg_start + 1] == b'.' {
                    bad = true;
                }
                seg_start = j + 1;
            }
            if j < n && b[j] == 0 {
                bad = true;
            }
        }
        j += 1;
    }
    assert!(r.is_err() == bad, "C19: validate_path accepts/rejects a path against the NUL / absolute / `..`-segment rule");
    kani::cover!(r.is_ok() && n == N, "accepted path of the maximum length");
    kani::cover!(r.is_err(), "rejected path");
}

/// SCENARIO validate_path_sym: buf:[u8;7] n:usize
#[kani::proof]
#[kani::unwind(10)]
fn validate_path_sym() {
    check_path::<7>()
}

/// thorough tier: paths of up to 10 bytes (three two-byte segments with separators and more)
/// SCENARIO validate_path_sym10: buf:[u8;10] n:usize
#[kani::proof]
#[kani::unwind(13)]
fn validate_path_sym10() {
    check_path::<10>()
}
