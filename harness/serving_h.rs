// Kani harnesses for src/serving.rs (engine K2: real crate, model dependencies).
// Injected as child module `serving::verif_h`, so `serve`, `serve_inner`,
// `parse_modified_hdrs`, `prepare_multipart` and `MultipartStream` are the real items.
//
// All results are for the instantiation serve::<HEnt, ()> with Data = Chunk, Error = HErr.
#![allow(dead_code, unused_imports, static_mut_refs, unused_variables, unused_mut)]

use super::*;

#[path = "hcommon.rs"]
pub mod hc;
#[path = "oracle.rs"]
pub mod oracle;

use hc::*;
use http::header::HeaderName;
use oracle::{Precond, Spec, TagCond};
use std::time::{Duration, UNIX_EPOCH};

pub const M_GET: u8 = 0;
pub const M_HEAD: u8 = 1;
pub const M_POST: u8 = 2;
pub const M_EXT: u8 = 3;

pub fn method_of(k: u8) -> Method {
    match k {
        M_GET => Method::GET,
        M_HEAD => Method::HEAD,
        M_POST => Method::POST,
        _ => Method::model_extension(7),
    }
}

/// Everything about the entity and the clock, drawn up front.
/// SCENARIO-ORDER: len:u64 etag:u8 has_mtime:bool m_secs:u64 m_nanos:u32 now_secs:u64 now_nanos:u32 nhdr:u8
pub struct EntDraw {
    pub len: u64,
    pub etag: u8,
    pub has_mtime: bool,
    pub m_secs: u64,
    pub m_nanos: u32,
    pub now_secs: u64,
    pub now_nanos: u32,
    pub nhdr: u8,
}

pub fn draw_ent() -> EntDraw {
    let d = EntDraw {
        len: kani::any(),
        etag: kani::any(),
        has_mtime: kani::any(),
        m_secs: kani::any(),
        m_nanos: kani::any(),
        now_secs: kani::any(),
        now_nanos: kani::any(),
        nhdr: kani::any(),
    };
    kani::assume(d.etag <= 3);
    kani::assume(d.nhdr <= 2);
    kani::assume(d.m_nanos < 1_000_000_000 && d.now_nanos < 1_000_000_000);
    // well-formed entity / sane clock: between the epoch and year 9999 (httpdate's domain)
    kani::assume(d.m_secs <= httpdate::MAX_SECS && d.now_secs <= httpdate::MAX_SECS);
    unsafe {
        NOW = (d.now_secs, d.now_nanos);
    }
    d
}

pub fn ent_of(d: &EntDraw) -> HEnt {
    HEnt {
        len: d.len,
        etag: d.etag,
        etag_bytes: None,
        mtime: if d.has_mtime { Some((d.m_secs, d.m_nanos)) } else { None },
        nhdr: d.nhdr,
    }
}

pub fn request(method: u8) -> Request<()> {
    let mut r = Request::new(());
    *r.method_mut() = method_of(method);
    r
}

fn allow_names_get_and_head(v: &[u8]) -> bool {
    // tokens separated by ',' with optional spaces; case-insensitive
    let mut has_get = false;
    let mut has_head = false;
    let mut i = 0;
    let mut k = 0;
    while k < 8 && i < v.len() {
        while i < v.len() && (v[i] == b' ' || v[i] == b',' || v[i] == b'\t') {
            i += 1;
        }
        let s = i;
        while i < v.len() && v[i] != b',' && v[i] != b' ' && v[i] != b'\t' {
            i += 1;
        }
        let t = &v[s..i];
        if t.eq_ignore_ascii_case(b"get") {
            has_get = true;
        }
        if t.eq_ignore_ascii_case(b"head") {
            has_head = true;
        }
        k += 1;
    }
    has_get && has_head
}

/// C14: validators and metadata on 200/206/304/412/416.
pub fn check_common_headers(sn: &Snap<'_>, d: &EntDraw) {
    assert!(sn.count[S_ACCEPT_RANGES] == 1, "C14: Accept-Ranges missing or repeated");
    assert!(bytes_eq(sn.val[S_ACCEPT_RANGES].unwrap(), b"bytes"), "C14: Accept-Ranges is not bytes");
    match etag_text(d.etag) {
        Some(t) => {
            assert!(sn.count[S_ETAG] == 1, "C14: ETag missing or repeated");
            assert!(bytes_eq(sn.val[S_ETAG].unwrap(), t.as_bytes()), "C14: ETag altered");
        }
        None => assert!(sn.count[S_ETAG] == 0, "C14: ETag invented"),
    }
    if d.has_mtime {
        assert!(sn.count[S_DATE] == 1, "C14: Date missing");
        assert!(sn.count[S_LAST_MODIFIED] == 1, "C14: Last-Modified missing");
        let date = httpdate::model_parse_bytes(sn.val[S_DATE].unwrap());
        let lm = httpdate::model_parse_bytes(sn.val[S_LAST_MODIFIED].unwrap());
        assert!(date.is_some() && lm.is_some(), "C14: unparseable Date/Last-Modified");
        let (date, lm) = (date.unwrap(), lm.unwrap());
        assert!(lm <= date, "C14: Last-Modified exceeds Date");
        let m_future = (d.m_secs, d.m_nanos) > (d.now_secs, d.now_nanos);
        if !m_future {
            assert!(lm == d.m_secs, "C14: Last-Modified is not the modification time truncated to the second");
        }
        assert!(date == d.now_secs, "C14: Date is not the current second");
    } else {
        assert!(sn.count[S_LAST_MODIFIED] == 0, "C14: Last-Modified invented");
    }
}

pub fn entity_headers_present(sn: &Snap<'_>, d: &EntDraw) -> bool {
    let a = d.nhdr < 1 || (sn.count[S_CONTENT_TYPE] == 1 && bytes_eq(sn.val[S_CONTENT_TYPE].unwrap(), EH0.1.as_bytes()));
    let b = d.nhdr < 2 || (sn.count[S_CONTENT_LANGUAGE] == 1 && bytes_eq(sn.val[S_CONTENT_LANGUAGE].unwrap(), EH1.1.as_bytes()));
    a && b
}
pub fn entity_headers_absent(sn: &Snap<'_>) -> bool {
    sn.count[S_CONTENT_LANGUAGE] == 0 && sn.count[S_CONTENT_TYPE] == 0
}

/// Body of a 200 / single-range 206 for GET: exactly entity bytes a..b, contiguous, in order.
/// `polls` must be large enough for the script (K_EV + 2) plus the C20 extra polls.
pub fn check_exact_body(
    resp: Response<crate::body::Body<Chunk, HErr>>,
    a: u64,
    b: u64,
    polls: usize,
) {
    let announced = b - a;
    let body = resp.into_body();
    let mut body = std::pin::pin!(body);
    let mut dr = Drain::new();
    drain(&mut body, polls, Some(announced), &mut dr);
    // C02: only Ent frames, contiguous from a
    let mut pos = a;
    let mut i = 0;
    while i < MAX_FRAMES {
        if i < dr.nframes {
            let f = dr.frames[i];
            assert!(f.kind == FR_ENT, "C02: non-entity bytes in a 200/206 body");
            assert!(f.a == pos, "C02: entity bytes out of place (gap, repeat or shift)");
            pos += f.b;
        }
        i += 1;
    }
    assert!(!dr.overflow_total && dr.total <= announced, "C01: body delivered more than announced");
    assert!(dr.hint_violations == 0, "C12: size hint not exact");
    assert!(dr.eos_violations == 0, "C12: data or error after is_end_stream()");
    assert!(!dr.data_after_terminal, "C20: data after the body terminated");
    if dr.ended && !dr.errored {
        assert!(dr.total == announced, "C01: clean end with fewer bytes than announced");
        assert!(pos == b, "C02: body is not the announced range");
    }
    // liveness within the bound: honouring streams finish within K_EV + 2 polls
    if unsafe { !FAULTY } {
        assert!(dr.terminal(), "body did not terminate within the poll bound");
        let script_has_err = unsafe {
            (SCRIPTS[0][0].kind % 3 == EV_ERR) || (SCRIPTS[0][1].kind % 3 == EV_ERR)
        };
        if !script_has_err {
            assert!(dr.ended && !dr.errored, "C01: contract-honouring entity but the body failed");
        }
        assert!(unsafe { CALLS } == 1, "C02: get_range not called exactly once");
        assert!(unsafe { CALL_LOG[0] } == (a, b), "C02: get_range called with a different range than announced");
    }
    kani::cover!(dr.ended && !dr.errored && dr.nframes >= 2, "clean end after >= 2 frames");
    kani::cover!(dr.errored, "entity error passed through");
}

/// Bodies of HEAD responses and of 304/416: empty, exact hint 0, entity untouched.
pub fn check_empty_body(resp: Response<crate::body::Body<Chunk, HErr>>) {
    let body = resp.into_body();
    let mut body = std::pin::pin!(body);
    let mut dr = Drain::new();
    drain(&mut body, 3, Some(0), &mut dr);
    assert!(dr.nframes == 0 && dr.total == 0, "C15/C01: body not empty");
    assert!(dr.ended && !dr.errored, "empty body did not end cleanly");
    assert!(dr.hint_violations == 0, "C12: size hint not exact 0");
    assert!(unsafe { CALLS } == 0, "C15: entity data was requested");
}

/// Small fixed bodies (405, 412, 400, 413): exact hint = bytes delivered, no Content-Length needed.
pub fn check_small_body(resp: Response<crate::body::Body<Chunk, HErr>>) {
    let body = resp.into_body();
    let hint = http_body::Body::size_hint(&body);
    let mut body = std::pin::pin!(body);
    let mut dr = Drain::new();
    drain(&mut body, 3, None, &mut dr);
    assert!(dr.ended && !dr.errored, "fixed body did not end cleanly");
    assert!(hint.lower() == dr.total && hint.upper() == Some(dr.total), "C01: size hint of a fixed body is wrong");
    assert!(dr.eos_violations == 0 && !dr.data_after_terminal);
    assert!(unsafe { CALLS } == 0, "entity data was requested for an error response");
}

// =======================================================================================
// H1: no request headers. C01 C02 C12 C13 C14 C15 C20 on the 200 / 405 paths.
// SCENARIO serve_plain: method:u8 | EntDraw | script(K_CALLS x K_EV x (kind:u8 n:u64))

#[kani::proof]
#[kani::unwind(12)]
#[kani::stub(std::time::SystemTime::now, hc::stub_now)]
#[kani::stub(core::slice::memchr::memchr, hc::naive_memchr)]
pub fn serve_plain() {
    let method: u8 = kani::any();
    kani::assume(method <= 3);
    let d = draw_ent();
    serve_plain_body(method, d)
}

/// Structural choices fixed (constants), numbers symbolic.
pub fn serve_plain_cfg(method: u8, etag: u8, has_mtime: bool, nhdr: u8) {
    let mut d = draw_ent();
    d.etag = etag;
    d.has_mtime = has_mtime;
    d.nhdr = nhdr;
    serve_plain_body(method, d)
}

pub fn serve_plain_body(method: u8, d: EntDraw) {
    draw_script(false);
    let req = request(method);
    let resp = serve(ent_of(&d), &req);
    let st = resp.status().as_u16();
    let sn = snap(resp.headers());
    if method != M_GET && method != M_HEAD {
        assert!(st == 405, "C13: non-GET/HEAD method not answered 405");
        let allow = sn.val[S_ALLOW];
        assert!(allow.is_some() && allow_names_get_and_head(allow.unwrap()), "C13: Allow does not name GET and HEAD");
        check_small_body(resp);
        return;
    }
    assert!(st == 200, "C03: request without Range not answered 200");
    check_common_headers(&sn, &d);
    assert!(entity_headers_present(&sn, &d), "C14: entity headers missing on 200");
    assert!(sn.count[S_CONTENT_RANGE] == 0, "C02: Content-Range on a 200");
    assert!(sn.count[S_CONTENT_LENGTH] == 1, "C01: 200 without exactly one Content-Length");
    let cl = parse_whole_decimal(sn.val[S_CONTENT_LENGTH].unwrap());
    assert!(cl == Some(d.len), "C01: Content-Length is not the entity length");
    if method == M_HEAD {
        check_empty_body(resp);
    } else {
        check_exact_body(resp, 0, d.len, K_EV + 4);
    }
}

// =======================================================================================
// H2: one range spec, optional If-Range. C01 C02 C03 C05 C12 C14 C15.

pub const MAXN: usize = 4;
pub const PH: [&str; MAXN] = ["101", "202", "303", "404"];
pub static mut NUMS: [u64; MAXN] = [0; MAXN];
pub static mut OKS: [bool; MAXN] = [true; MAXN];

fn pie() -> std::num::ParseIntError {
    match <u8 as std::str::FromStr>::from_str("x") {
        Err(e) => e,
        Ok(_) => unreachable!(),
    }
}

/// Stub for `<u64 as FromStr>::from_str` (see range_h.rs for the rationale).
pub fn stub_u64_from_str(s: &str) -> Result<u64, std::num::ParseIntError> {
    let b = s.as_bytes();
    let mut k = 0;
    while k < MAXN {
        if bytes_eq(b, PH[k].as_bytes()) {
            return unsafe {
                if OKS[k] {
                    Ok(NUMS[k])
                } else {
                    Err(pie())
                }
            };
        }
        k += 1;
    }
    if b.is_empty() {
        return Err(pie());
    }
    let mut i = 0;
    if b[0] == b'+' {
        i = 1;
        if b.len() == 1 {
            return Err(pie());
        }
    }
    let mut v: u64 = 0;
    while i < b.len() {
        let c = b[i];
        if c < b'0' || c > b'9' {
            return Err(pie());
        }
        v = match v.checked_mul(10).and_then(|x| x.checked_add((c - b'0') as u64)) {
            Some(x) => x,
            None => return Err(pie()),
        };
        i += 1;
    }
    Ok(v)
}

pub fn draw_nums() -> ([u64; MAXN], [bool; MAXN]) {
    let mut nums = [0u64; MAXN];
    let mut oks = [true; MAXN];
    let mut i = 0;
    while i < MAXN {
        nums[i] = kani::any();
        oks[i] = kani::any();
        i += 1;
    }
    unsafe {
        NUMS = nums;
        OKS = oks;
    }
    (nums, oks)
}

pub const IR_ABSENT: u8 = 0;
pub const IR_SAME: u8 = 1; // byte-identical to the entity's ETag text
pub const IR_OTHER: u8 = 2; // "b"
pub const IR_WEAK_SAME_OPAQUE: u8 = 3; // W/"a"
pub const IR_DATE_EQ_LM: u8 = 4; // the served Last-Modified instant

/// What C03/C05 expect for a request with exactly one grammatical, parseable spec.
/// SCENARIO serve_range1: method:u8 form:u8 ir:u8 | nums(MAXN x (u64,bool)) | EntDraw | script
pub fn serve_range1_body(form: u8) {
    let method: u8 = kani::any();
    kani::assume(method <= 1);
    let ir: u8 = kani::any();
    kani::assume(ir <= 4);
    let (nums, oks) = draw_nums();
    let d = draw_ent();
    draw_script(false);

    let (text, spec): (&'static str, Spec) = match form {
        0 => ("bytes=101-202", Spec::FirstLast(Some(nums[0]), Some(nums[1]))),
        1 => ("bytes=101-", Spec::From(Some(nums[0]))),
        _ => ("bytes=-101", Spec::Suffix(Some(nums[0]))),
    };
    kani::assume(oks[0] && oks[1]);
    kani::assume(oracle::spec_grammatical(spec));

    let mut req = request(method);
    req.headers_mut().insert(header::RANGE, HeaderValue::from_static(text));
    let if_range_matches = match ir {
        IR_ABSENT => true,
        IR_SAME => {
            // echo of whatever ETag the entity serves
            match etag_text(d.etag) {
                Some(t) => {
                    req.headers_mut().insert(header::IF_RANGE, HeaderValue::from_static(t));
                    d.etag == ETAG_STRONG || d.etag == ETAG_COMMA
                }
                None => {
                    req.headers_mut().insert(header::IF_RANGE, HeaderValue::from_static("\"a\""));
                    false
                }
            }
        }
        IR_OTHER => {
            req.headers_mut().insert(header::IF_RANGE, HeaderValue::from_static("\"b\""));
            false
        }
        IR_WEAK_SAME_OPAQUE => {
            req.headers_mut().insert(header::IF_RANGE, HeaderValue::from_static("W/\"a\""));
            false
        }
        _ => {
            // a date equal to what Last-Modified will say: may be refused (and is)
            let lm = if (d.m_secs, d.m_nanos) > (d.now_secs, d.now_nanos) { d.now_secs } else { d.m_secs };
            let tok = httpdate::model_token_bytes(lm);
            req.headers_mut().insert(header::IF_RANGE, HeaderValue::model_from_inline(&tok));
            false
        }
    };

    let resp = serve(ent_of(&d), &req);
    let st = resp.status().as_u16();
    let sn = snap(resp.headers());
    check_common_headers(&sn, &d);

    if !if_range_matches {
        // C05: complete representation, no Content-Range
        assert!(st == 200, "C05: Range honoured although If-Range does not match a strong ETag");
        assert!(sn.count[S_CONTENT_RANGE] == 0, "C05: Content-Range on a 200");
        assert!(sn.count[S_CONTENT_LENGTH] == 1, "C01: 200 without exactly one Content-Length");
        let cl = parse_whole_decimal(sn.val[S_CONTENT_LENGTH].unwrap());
        assert!(cl == Some(d.len), "C01: Content-Length is not the entity length");
        assert!(entity_headers_present(&sn, &d), "C14: entity headers missing on 200");
        if method == M_HEAD {
            check_empty_body(resp);
        } else {
            check_exact_body(resp, 0, d.len, K_EV + 4);
        }
        kani::cover!(ir == IR_WEAK_SAME_OPAQUE, "weak If-Range refused");
        return;
    }

    match oracle::resolve_spec(spec, d.len) {
        None => {
            assert!(st == 416, "C03: range set that selects nothing not answered 416");
            let cr = sn.val[S_CONTENT_RANGE];
            assert!(cr.is_some(), "C03: 416 without Content-Range");
            assert!(parse_unsat_content_range(cr.unwrap()) == Some(d.len), "C03: 416 Content-Range is not bytes */L");
            assert!(entity_headers_absent(&sn), "C14: entity headers on 416");
            assert!(sn.count[S_CONTENT_LENGTH] == 0, "C01: Content-Length on a 416");
            check_empty_body(resp);
            kani::cover!(d.len > 0, "416 on a non-empty entity");
        }
        Some((a, b)) => {
            assert!(st == 206, "C03: satisfiable single range not answered 206");
            let cr = sn.val[S_CONTENT_RANGE];
            assert!(cr.is_some() && sn.count[S_CONTENT_RANGE] == 1, "C02: 206 without Content-Range");
            let got = parse_content_range(cr.unwrap());
            assert!(got == Some((a, b - 1, d.len)), "C02/C03: Content-Range does not name the RFC range a-b/L");
            assert!(sn.count[S_CONTENT_LENGTH] == 1, "C01: 206 without Content-Length");
            let cl = parse_whole_decimal(sn.val[S_CONTENT_LENGTH].unwrap());
            assert!(cl == Some(b - a), "C01: Content-Length is not the range length");
            if ir == IR_ABSENT {
                assert!(entity_headers_present(&sn, &d), "C14: entity headers missing on 206 without If-Range");
            } else {
                assert!(entity_headers_absent(&sn), "C05: entity headers on 206 under If-Range");
            }
            if method == M_HEAD {
                check_empty_body(resp);
            } else {
                check_exact_body(resp, a, b, K_EV + 4);
            }
            kani::cover!(ir == IR_SAME, "206 under matching If-Range");
            kani::cover!(b == d.len && a > 0, "range clamped to the entity end");
        }
    }
}

#[kani::proof]
#[kani::unwind(12)]
#[kani::stub(std::time::SystemTime::now, hc::stub_now)]
#[kani::stub(core::slice::memchr::memchr, hc::naive_memchr)]
#[kani::stub(<u64 as std::str::FromStr>::from_str, stub_u64_from_str)]
pub fn serve_range1_fl() {
    serve_range1_body(0)
}
#[kani::proof]
#[kani::unwind(12)]
#[kani::stub(std::time::SystemTime::now, hc::stub_now)]
#[kani::stub(core::slice::memchr::memchr, hc::naive_memchr)]
#[kani::stub(<u64 as std::str::FromStr>::from_str, stub_u64_from_str)]
pub fn serve_range1_open() {
    serve_range1_body(1)
}
#[kani::proof]
#[kani::unwind(12)]
#[kani::stub(std::time::SystemTime::now, hc::stub_now)]
#[kani::stub(core::slice::memchr::memchr, hc::naive_memchr)]
#[kani::stub(<u64 as std::str::FromStr>::from_str, stub_u64_from_str)]
pub fn serve_range1_suffix() {
    serve_range1_body(2)
}



// ---- experiments (to be removed)
fn mk(len: u64) -> HEnt { HEnt { len, etag: 0, etag_bytes: None, mtime: None, nhdr: 0 } }
macro_rules! exp { ($n:ident, $u:expr, $body:expr) => {
#[kani::proof]
#[kani::unwind($u)]
#[kani::stub(std::time::SystemTime::now, hc::stub_now)]
pub fn $n() { let len: u64 = kani::any(); let f: fn(u64) = $body; f(len) } } }
exp!(t1, 12, |len| {
    let req = request(M_GET);
    let r = req.headers().get(header::RANGE);
    assert!(r.is_none());
});
exp!(t2, 12, |len| {
    let req = request(M_GET);
    let ent = mk(len);
    let r = serve_inner(&ent, req.method(), req.headers());
    match r { ServeInner::Simple(resp) => { assert!(resp.status().as_u16() == 200); std::mem::forget(resp); } _ => assert!(false) }
});
exp!(t3, 12, |len| {
    let ent = mk(len);
    let h = HeaderMap::new();
    let r = serve_inner(&ent, &Method::GET, &h);
    match r { ServeInner::Simple(resp) => { assert!(resp.status().as_u16() == 200); std::mem::forget(resp); } _ => assert!(false) }
});
exp!(t4, 12, |len| {
    let r = crate::range::parse(None, len);
    assert!(r == crate::range::ResolvedRanges::None);
});
fn stub_parse(_r: Option<&HeaderValue>, _len: u64) -> crate::range::ResolvedRanges { crate::range::ResolvedRanges::None }
#[kani::proof]
#[kani::unwind(12)]
#[kani::stub(std::time::SystemTime::now, hc::stub_now)]
#[kani::stub(crate::range::parse, stub_parse)]
pub fn t5() { let len: u64 = kani::any();
    let ent = mk(len);
    let h = HeaderMap::new();
    let r = serve_inner(&ent, &Method::GET, &h);
    match r { ServeInner::Simple(resp) => { assert!(resp.status().as_u16() == 200); std::mem::forget(resp); } _ => assert!(false) }
}
