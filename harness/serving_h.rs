// Kani harnesses for src/serving.rs (engine K2: real crate, model dependencies).
// Injected as child module `serving::verif_h`, so `serve`, `serve_inner`,
// `parse_modified_hdrs`, `prepare_multipart` and `MultipartStream` are the real items.
//
// All results are for the instantiation serve::<HEnt, ()> with Data = Chunk, Error = HErr.
#![allow(dead_code, unused_imports, static_mut_refs, unused_variables, unused_mut)]

use super::*;

#[path = "hcommon.rs"]
pub mod hc;
#[path = "oracle.rs"]
pub mod oracle;

use hc::*;
use http::header::HeaderName;
use oracle::{Precond, Spec, TagCond};
use std::time::{Duration, UNIX_EPOCH};

/// Polls of a 200/206 body inside the serve-level harnesses. The stream wrapper itself
/// (ExactLenStream) is verified for arbitrary inner streams in body_h.rs; here it is enough to see
/// that the body serve() built announces the right length and is fed by get_range(a..b).
pub const BODY_POLLS: usize = 2;

pub const M_GET: u8 = 0;
pub const M_HEAD: u8 = 1;
pub const M_POST: u8 = 2;
pub const M_EXT: u8 = 3;

pub fn method_of(k: u8) -> Method {
    match k {
        M_GET => Method::GET,
        M_HEAD => Method::HEAD,
        M_POST => Method::POST,
        _ => Method::model_extension(7),
    }
}

/// Everything about the entity and the clock, drawn up front.
/// SCENARIO-ORDER: len:u64 etag:u8 has_mtime:bool m_secs:u64 m_nanos:u32 now_secs:u64 now_nanos:u32 nhdr:u8
pub struct EntDraw {
    pub len: u64,
    pub etag: u8,
    pub has_mtime: bool,
    pub m_secs: u64,
    pub m_nanos: u32,
    pub now_secs: u64,
    pub now_nanos: u32,
    pub nhdr: u8,
}

pub fn draw_ent() -> EntDraw {
    let d = EntDraw {
        len: kani::any(),
        etag: kani::any(),
        has_mtime: kani::any(),
        m_secs: kani::any(),
        m_nanos: kani::any(),
        now_secs: kani::any(),
        now_nanos: kani::any(),
        nhdr: kani::any(),
    };
    kani::assume(d.etag <= 3);
    kani::assume(d.nhdr <= 3);
    kani::assume(d.m_nanos < 1_000_000_000 && d.now_nanos < 1_000_000_000);
    // well-formed entity / sane clock: between the epoch and year 9999 (httpdate's domain)
    kani::assume(d.m_secs <= httpdate::MAX_SECS && d.now_secs <= httpdate::MAX_SECS);
    unsafe {
        NOW = (d.now_secs, d.now_nanos);
    }
    d
}

pub fn ent_of(d: &EntDraw) -> HEnt {
    HEnt {
        len: d.len,
        etag: d.etag,
        etag_bytes: None,
        mtime: if d.has_mtime { Some((d.m_secs, d.m_nanos)) } else { None },
        nhdr: d.nhdr,
    }
}

pub fn request(method: u8) -> Request<()> {
    let mut r = Request::new(());
    *r.method_mut() = method_of(method);
    r
}

fn allow_names_get_and_head(v: &[u8]) -> bool {
    // tokens separated by ',' with optional spaces; case-insensitive
    let mut has_get = false;
    let mut has_head = false;
    let mut i = 0;
    let mut k = 0;
    while k < 8 && i < v.len() {
        while i < v.len() && (v[i] == b' ' || v[i] == b',' || v[i] == b'\t') {
            i += 1;
        }
        let s = i;
        while i < v.len() && v[i] != b',' && v[i] != b' ' && v[i] != b'\t' {
            i += 1;
        }
        let t = &v[s..i];
        if t.eq_ignore_ascii_case(b"get") {
            has_get = true;
        }
        if t.eq_ignore_ascii_case(b"head") {
            has_head = true;
        }
        k += 1;
    }
    has_get && has_head
}

/// C14: validators and metadata on 200/206/304/412/416.
pub fn check_common_headers(sn: &Snap<'_>, d: &EntDraw) {
    assert!(sn.count[S_ACCEPT_RANGES] == 1, "C14: Accept-Ranges missing or repeated");
    assert!(bytes_eq(sn.val[S_ACCEPT_RANGES].unwrap(), b"bytes"), "C14: Accept-Ranges is not bytes");
    match etag_text(d.etag) {
        Some(t) => {
            assert!(sn.count[S_ETAG] == 1, "C14: ETag missing or repeated");
            assert!(bytes_eq(sn.val[S_ETAG].unwrap(), t.as_bytes()), "C14: ETag altered");
        }
        None => assert!(sn.count[S_ETAG] == 0, "C14: ETag invented"),
    }
    if d.has_mtime {
        assert!(sn.count[S_DATE] == 1, "C14: Date missing");
        assert!(sn.count[S_LAST_MODIFIED] == 1, "C14: Last-Modified missing");
        let date = httpdate::model_parse_bytes(sn.val[S_DATE].unwrap());
        let lm = httpdate::model_parse_bytes(sn.val[S_LAST_MODIFIED].unwrap());
        assert!(date.is_some() && lm.is_some(), "C14: unparseable Date/Last-Modified");
        let (date, lm) = (date.unwrap(), lm.unwrap());
        assert!(lm <= date, "C14: Last-Modified exceeds Date");
        let m_future = (d.m_secs, d.m_nanos) > (d.now_secs, d.now_nanos);
        if !m_future {
            assert!(lm == d.m_secs, "C14: Last-Modified is not the modification time truncated to the second");
        }
        assert!(date == d.now_secs, "C14: Date is not the current second");
    } else {
        assert!(sn.count[S_LAST_MODIFIED] == 0, "C14: Last-Modified invented");
    }
}

pub fn entity_headers_present(sn: &Snap<'_>, d: &EntDraw) -> bool {
    let a = d.nhdr < 1 || (sn.count[S_CONTENT_TYPE] == 1 && bytes_eq(sn.val[S_CONTENT_TYPE].unwrap(), EH0.1.as_bytes()));
    let b = d.nhdr < 2
        || (sn.count[S_CONTENT_LANGUAGE] == (if d.nhdr >= 3 { 2 } else { 1 }) && bytes_eq(sn.val[S_CONTENT_LANGUAGE].unwrap(), EH1.1.as_bytes()));
    // every value of a repeated header field, in order
    let c = d.nhdr < 3 || (sn.lang2.is_some() && bytes_eq(sn.lang2.unwrap(), EH2.1.as_bytes()));
    a && b && c
}
pub fn entity_headers_absent(sn: &Snap<'_>) -> bool {
    sn.count[S_CONTENT_LANGUAGE] == 0 && sn.count[S_CONTENT_TYPE] == 0
}

/// The body kind of a response is decided inside serve(); at the join points the model checker
/// only knows "one of the four kinds", and would then execute all four stream
/// implementations (on garbage state for the infeasible ones) on every poll. The harness
/// therefore states which kind the pinned implementation uses for each response class and
/// re-wraps the stream inside the `match` arm, which makes the kind a constant again.
/// A different kind is reported as a failed HARNESS-ASSUMPTION, which the runner turns into
/// "inconclusive" -- never into a violation.
macro_rules! expect_kind {
    ($body:expr, $variant:ident, $b:ident => $check:expr) => {
        match $body.0 {
            crate::body::BodyStream::$variant(x) => {
                let $b = crate::body::Body(crate::body::BodyStream::$variant(x));
                $check
            }
            other => {
                std::mem::forget(other);
                assert!(false, "HARNESS-ASSUMPTION: response body is of a different stream kind than the harness models for this response class");
            }
        }
    };
}

/// Body of a single-range 206 before the first poll: the length-checking stream over exactly
/// the entity's bytes a..b (what it then delivers is `exactlen_*` in body_h.rs).
pub fn check_exact_initial(body: crate::body::Body<Chunk, HErr>, a: u64, b: u64) {
    let hint = http_body::Body::size_hint(&body);
    assert!(hint.lower() == b - a && hint.upper() == Some(b - a), "C01/C12: body of a 206 does not announce exactly the range length");
    assert!(!http_body::Body::is_end_stream(&body), "C12: non-empty 206 body claims to be at its end before the first poll");
    assert!(unsafe { CALLS } == 1 && unsafe { CALL_LOG[0] } == (a, b), "C02: entity asked for other bytes than Content-Range announces");
    match body.0 {
        crate::body::BodyStream::ExactLen(s) => std::mem::forget(s),
        other => {
            std::mem::forget(other);
            assert!(false, "C01: 206 body is not the length-checked entity stream");
        }
    }
}

/// Body of a 200 / single-range 206 for GET: exactly entity bytes a..b, contiguous, in order.
/// `polls` must be large enough for the script (K_EV + 2) plus the C20 extra polls.
pub fn check_exact_body(body: crate::body::Body<Chunk, HErr>, a: u64, b: u64, polls: usize) {
    expect_kind!(body, ExactLen, bd => check_exact_body_k(bd, a, b, polls))
}

pub fn check_exact_body_k(
    body: crate::body::Body<Chunk, HErr>,
    a: u64,
    b: u64,
    polls: usize,
) {
    let announced = b - a;
    let mut body = std::pin::pin!(body);
    let mut dr = Drain::new();
    drain(&mut body, polls, Some(announced), &mut dr);
    // C02: only Ent frames, contiguous from a
    let mut pos = a;
    let mut i = 0;
    while i < MAX_POLLS {
        if i < polls {
            let f = dr.ev[i];
            if f.kind == FR_ENT {
                assert!(f.a == pos, "C02: entity bytes out of place (gap, repeat or shift)");
                pos = pos.wrapping_add(f.b);
            }
            assert!(f.kind != FR_LIT && f.kind != FR_STAT, "C02: non-entity bytes in a 200/206 body");
        }
        i += 1;
    }
    assert!(!dr.overflow_total && dr.total <= announced, "C01: body delivered more than announced");
    assert!(dr.hint_violations == 0, "C12: size hint not exact");
    assert!(dr.eos_violations == 0, "C12: data or error after is_end_stream()");
    assert!(!dr.data_after_terminal, "C20: data after the body terminated");
    if dr.ended && !dr.errored {
        assert!(dr.total == announced, "C01: clean end with fewer bytes than announced");
        assert!(pos == b, "C02: body is not the announced range");
    }
    // liveness within the bound: honouring streams finish within K_EV + 2 polls
    if unsafe { !FAULTY } {
        let script_has_err = unsafe {
            (SCRIPTS[0][0].kind % 3 == EV_ERR) || (SCRIPTS[0][1].kind % 3 == EV_ERR)
        };
        if polls >= K_EV + 2 {
            assert!(dr.terminal(), "body did not terminate within the poll bound");
            if !script_has_err {
                assert!(dr.ended && !dr.errored, "C01: contract-honouring entity but the body failed");
            }
        }
        if !script_has_err {
            assert!(!dr.errored, "C01: contract-honouring entity but the body failed");
        }
        assert!(unsafe { CALLS } == 1, "C02: get_range not called exactly once");
        assert!(unsafe { CALL_LOG[0] } == (a, b), "C02: get_range called with a different range than announced");
    }
}

/// Bodies of HEAD responses and of 304/416: empty, exact hint 0, entity untouched.
pub fn check_empty_body(body: crate::body::Body<Chunk, HErr>) {
    expect_kind!(body, Once, bd => check_empty_body_k(bd))
}

pub fn check_empty_body_k(body: crate::body::Body<Chunk, HErr>) {
    let mut body = std::pin::pin!(body);
    let mut dr = Drain::new();
    drain(&mut body, 3, Some(0), &mut dr);
    assert!(dr.nframes == 0 && dr.total == 0, "C15/C01: body not empty");
    assert!(dr.ended && !dr.errored, "empty body did not end cleanly");
    assert!(dr.hint_violations == 0, "C12: size hint not exact 0");
    assert!(unsafe { CALLS } == 0, "C15: entity data was requested");
}

/// Small fixed bodies (405, 412, 400, 413): exact hint = bytes delivered, no Content-Length needed.
pub fn check_small_body(body: crate::body::Body<Chunk, HErr>) {
    expect_kind!(body, Once, bd => check_small_body_k(bd))
}

pub fn check_small_body_k(body: crate::body::Body<Chunk, HErr>) {
    let hint = http_body::Body::size_hint(&body);
    let mut body = std::pin::pin!(body);
    let mut dr = Drain::new();
    drain(&mut body, 3, None, &mut dr);
    assert!(dr.ended && !dr.errored, "fixed body did not end cleanly");
    assert!(hint.lower() == dr.total && hint.upper() == Some(dr.total), "C01: size hint of a fixed body is wrong");
    assert!(dr.eos_violations == 0 && !dr.data_after_terminal);
    assert!(unsafe { CALLS } == 0, "entity data was requested for an error response");
}

// =======================================================================================
// Decomposition. Executing the Range *text* parser inside serve() makes the model checker
// explore string code on every path, so the serve-level harnesses replace
// `range::parse` by `stub_parse`, which returns a harness-chosen result that satisfies
// parse's contract (non-empty list of non-empty in-bounds ranges, or None / NotSatisfiable).
// `range::parse` itself is compared with RFC 7233 on symbolic numbers in range_h.rs.
// The stub records its arguments, so "serve hands the Range header (or None, when If-Range
// does not match) and the entity length to the parser" is checked here, which is what makes
// the two halves compose.

pub const PR_NONE: u8 = 0;
pub const PR_UNSAT: u8 = 1;
pub const PR_SAT: u8 = 2;

pub static mut PARSE_KIND: u8 = 0;
pub static mut PARSE_N: usize = 0;
pub static mut PARSE_RANGES: [(u64, u64); 3] = [(0, 0); 3];
pub static mut PARSE_CALLS: u32 = 0;
pub static mut PARSE_GOT_HDR: bool = false;
pub static mut PARSE_GOT_MARKER: bool = false;
pub static mut PARSE_GOT_LEN: u64 = 0;

pub const RANGE_MARKER: &str = "bytes=marker";

pub fn stub_parse(r: Option<&HeaderValue>, len: u64) -> crate::range::ResolvedRanges {
    use crate::range::ResolvedRanges;
    unsafe {
        PARSE_CALLS += 1;
        PARSE_GOT_LEN = len;
        PARSE_GOT_HDR = r.is_some();
        PARSE_GOT_MARKER = match r {
            Some(v) => bytes_eq(v.as_bytes(), RANGE_MARKER.as_bytes()),
            None => false,
        };
        if r.is_none() {
            return ResolvedRanges::None;
        }
        match PARSE_KIND {
            PR_NONE => ResolvedRanges::None,
            PR_UNSAT => ResolvedRanges::NotSatisfiable,
            _ => {
                let mut v = smallvec::SmallVec::new();
                let mut i = 0;
                while i < 3 {
                    if i < PARSE_N {
                        v.push(PARSE_RANGES[i].0..PARSE_RANGES[i].1);
                    }
                    i += 1;
                }
                ResolvedRanges::Satisfiable(v)
            }
        }
    }
}

/// Structural choices of a scenario: constants in every harness instance, so that the map
/// shapes and the control flow the model checker sees are concrete; numbers stay symbolic.
#[derive(Clone, Copy)]
pub struct Cfg {
    pub method: u8,
    pub etag: u8,
    pub has_mtime: bool,
    pub nhdr: u8,
    /// If-Range variant (IR_*)
    pub ir: u8,
    /// what the (stubbed) range parser answers when it is given the header
    pub parse: u8,
    pub nranges: usize,
    /// which half of the assertions this instance carries (the solver's problem is split in two):
    /// 0 = all, 1 = status + headers + resolver arguments, 2 = body
    pub focus: u8,
    /// event kinds of the entity streams (see hcommon::draw_script_fixed); 255 = symbolic
    pub script: [u8; 6],
    /// multi-range instances of the quick tier: entity length and range bounds are constants
    /// (len, a0, b0, a1, b1, a2, b2), so that serve's multipart-or-complete decision is a
    /// constant branch; None = all numbers symbolic
    pub nums: Option<[u64; 7]>,
}

pub const FOCUS_HEADERS: u8 = 1;
pub const FOCUS_BODY: u8 = 2;
pub const FOCUS_RANGE: u8 = 3;

macro_rules! hdr_assert {
    ($c:expr, $cond:expr, $msg:expr) => {
        if $c.focus != FOCUS_BODY && $c.focus != FOCUS_RANGE {
            assert!($cond, $msg);
        }
    };
}

/// status + Content-Range / Content-Length of a range response: also carried by the
/// FOCUS_RANGE instances of the quick tier (the full set of header assertions makes a 206
/// instance a 450-700 s problem; this subset is what fits the per-change budget)
macro_rules! rng_assert {
    ($c:expr, $cond:expr, $msg:expr) => {
        if $c.focus != FOCUS_BODY {
            assert!($cond, $msg);
        }
    };
}

/// body check or, in a headers-only instance, nothing
macro_rules! body_check {
    ($c:expr, $body:expr, $check:expr) => {
        if $c.focus != FOCUS_HEADERS && $c.focus != FOCUS_RANGE {
            $check
        } else {
            std::mem::forget($body);
        }
    };
}

pub const IR_ABSENT: u8 = 0;
pub const IR_SAME: u8 = 1; // byte-identical to the entity's ETag text
pub const IR_OTHER: u8 = 2; // "b"
pub const IR_WEAK_SAME_OPAQUE: u8 = 3; // W/"a"
pub const IR_DATE_EQ_LM: u8 = 4; // the served Last-Modified instant

/// SCENARIO serve_*: EntDraw | ranges 3 x (a:u64 b:u64) | script(K_CALLS x K_EV x (kind:u8 n:u64)) | pm_fail:bool pm_len:u64
pub fn serve_cfg(c: Cfg) {
    let mut d = draw_ent();
    d.etag = c.etag;
    d.has_mtime = c.has_mtime;
    d.nhdr = c.nhdr;
    if let Some(k) = c.nums {
        kani::assume(d.len == k[0]);
        d.len = k[0];
    }
    let mut rs = [(0u64, 0u64); 3];
    let mut i = 0;
    while i < 3 {
        let a: u64 = kani::any();
        let b: u64 = kani::any();
        rs[i] = (a, b);
        if let Some(k) = c.nums {
            kani::assume(a == k[1 + 2 * i] && b == k[2 + 2 * i]);
            rs[i] = (k[1 + 2 * i], k[2 + 2 * i]);
        }
        if i < c.nranges {
            // contract of range::parse (verified in range_h.rs)
            kani::assume(rs[i].0 < rs[i].1 && rs[i].1 <= d.len);
        }
        i += 1;
    }
    draw_script_fixed(false, c.script);
    // what the stand-in for prepare_multipart answers (multi-range instances only)
    let pm_fail: bool = kani::any();
    let pm_len: u64 = kani::any();
    unsafe {
        PM_FAIL = pm_fail;
        PM_BODYLEN = pm_len;
        PM_CALLS = 0;
    }
    unsafe {
        PARSE_KIND = c.parse;
        PARSE_N = c.nranges;
        PARSE_RANGES = rs;
    }

    let mut req = request(c.method);
    let has_range = c.parse != PR_NONE;
    if has_range {
        req.headers_mut().insert(header::RANGE, HeaderValue::from_static(RANGE_MARKER));
    }
    // C05: is the Range header to be honoured?
    let honoured = match c.ir {
        IR_ABSENT => true,
        IR_SAME => match etag_text(d.etag) {
            Some(t) => {
                req.headers_mut().insert(header::IF_RANGE, HeaderValue::from_static(t));
                d.etag == ETAG_STRONG || d.etag == ETAG_COMMA
            }
            None => {
                req.headers_mut().insert(header::IF_RANGE, HeaderValue::from_static("\"a\""));
                false
            }
        },
        IR_OTHER => {
            req.headers_mut().insert(header::IF_RANGE, HeaderValue::from_static("\"b\""));
            false
        }
        IR_WEAK_SAME_OPAQUE => {
            req.headers_mut().insert(header::IF_RANGE, HeaderValue::from_static("W/\"a\""));
            false
        }
        _ => {
            let lm = if (d.m_secs, d.m_nanos) > (d.now_secs, d.now_nanos) { d.now_secs } else { d.m_secs };
            let tok = httpdate::model_token_bytes(lm);
            req.headers_mut().insert(header::IF_RANGE, HeaderValue::model_from_inline(&tok));
            false
        }
    };

    let resp = serve(ent_of(&d), &req);
    let st = resp.status().as_u16();
    let (parts, resp) = resp.into_parts();
    let sn = snap(&parts.headers);

    if c.method != M_GET && c.method != M_HEAD {
        hdr_assert!(c, st == 405, "C13: non-GET/HEAD method not answered 405");
        let allow = sn.val[S_ALLOW];
        hdr_assert!(c, allow.is_some() && allow_names_get_and_head(allow.unwrap()), "C13: Allow does not name GET and HEAD");
        hdr_assert!(c, unsafe { PARSE_CALLS } == 0, "C13: request headers interpreted for a 405");
        body_check!(c, resp, check_small_body(resp));
        return;
    }

    // the parser was consulted once, with the entity length, and with the Range header
    // exactly when it is to be honoured
    hdr_assert!(c, unsafe { PARSE_CALLS } == 1, "C03: Range header not resolved exactly once");
    hdr_assert!(c, unsafe { PARSE_GOT_LEN } == d.len, "C03: Range resolved against a length that is not the entity's");
    if has_range && honoured {
        hdr_assert!(c, unsafe { PARSE_GOT_HDR && PARSE_GOT_MARKER }, "C03/C05: Range header not handed to the resolver");
    } else {
        hdr_assert!(c, unsafe { !PARSE_GOT_HDR }, "C05: Range honoured although If-Range does not match a strong ETag");
    }
    // 413 (and 400) are built from a fresh response: C14 lists 200, 206, 304, 412 and 416 only
    if c.focus != FOCUS_BODY && c.focus != FOCUS_RANGE && st != 413 && st != 400 {
        check_common_headers(&sn, &d);
    }

    let effective = if has_range && honoured { c.parse } else { PR_NONE };
    if effective == PR_NONE {
        hdr_assert!(c, st == 200, "C03/C05: expected the complete representation (200)");
        hdr_assert!(c, sn.count[S_CONTENT_RANGE] == 0, "C02/C05: Content-Range on a 200");
        hdr_assert!(c, sn.count[S_CONTENT_LENGTH] == 1, "C01: 200 without exactly one Content-Length");
        let cl = parse_whole_decimal(sn.val[S_CONTENT_LENGTH].unwrap());
        hdr_assert!(c, cl == Some(d.len), "C01: Content-Length is not the entity length");
        hdr_assert!(c, entity_headers_present(&sn, &d), "C14: entity headers missing on 200");
        if c.method == M_HEAD {
            body_check!(c, resp, check_empty_body(resp));
        } else {
            body_check!(c, resp, check_exact_body(resp, 0, d.len, BODY_POLLS));
        }
        return;
    }
    if effective == PR_UNSAT {
        hdr_assert!(c, st == 416, "C03: range set that selects nothing not answered 416");
        let cr = sn.val[S_CONTENT_RANGE];
        hdr_assert!(c, cr.is_some() && sn.count[S_CONTENT_RANGE] == 1, "C03: 416 without Content-Range");
        hdr_assert!(c, parse_unsat_content_range(cr.unwrap()) == Some(d.len), "C03: 416 Content-Range is not bytes */L");
        hdr_assert!(c, entity_headers_absent(&sn), "C14: entity headers on 416");
        hdr_assert!(c, sn.count[S_CONTENT_LENGTH] == 0, "C01: Content-Length on a 416");
        body_check!(c, resp, check_empty_body(resp));
        return;
    }
    if c.nranges == 1 {
        let (a, b) = rs[0];
        rng_assert!(c, st == 206, "C02/C03: satisfiable single range not answered 206 (a 200 must carry the complete entity)");
        let cr = sn.val[S_CONTENT_RANGE];
        rng_assert!(c, cr.is_some() && sn.count[S_CONTENT_RANGE] == 1, "C02: 206 without Content-Range");
        let got = parse_content_range(cr.unwrap());
        rng_assert!(c, got == Some((a, b - 1, d.len)), "C02/C03: Content-Range does not name the resolved range a-b/L");
        rng_assert!(c, sn.count[S_CONTENT_LENGTH] == 1, "C01: 206 without Content-Length");
        let cl = parse_whole_decimal(sn.val[S_CONTENT_LENGTH].unwrap());
        rng_assert!(c, cl == Some(b - a), "C01: Content-Length is not the range length");
        if c.ir == IR_ABSENT {
            hdr_assert!(c, entity_headers_present(&sn, &d), "C14: entity headers missing on 206 without If-Range");
        } else {
            hdr_assert!(c, entity_headers_absent(&sn), "C05: entity headers on 206 under If-Range");
        }
        if c.method == M_HEAD {
            body_check!(c, resp, check_empty_body(resp));
        } else {
            // (draining a 206 body inside this instance exhausts memory; the stream wrapper is
            // verified for arbitrary inner streams in body_h.rs, here: what it was built from)
            body_check!(c, resp, check_exact_initial(resp, a, b));
        }
        return;
    }
    // >= 2 ranges: multipart or the complete representation
    check_multi(c, &d, &rs, resp, st, &sn);
}

/// Expected bytes of one part header (numeral model: every number is a TOK-byte token).
fn part_header_ok(lit: &[u8], a: u64, b: u64, len: u64, nhdr: u8) -> bool {
    // "\r\n--B\r\nContent-Range: bytes " = 7 + 21 = 28 bytes
    let p = 28;
    if !(lit_at(lit, 0, b"\r\n--B\r\n") && lit_at(lit, 7, b"Content-") && lit_at(lit, 15, b"Range: ") && lit_at(lit, 22, b"bytes ")) {
        return false;
    }
    if token_at(lit, p) != Some(a) || !lit_at(lit, p + TOK, b"-") {
        return false;
    }
    if token_at(lit, p + TOK + 1) != Some(b - 1) || !lit_at(lit, p + 2 * TOK + 1, b"/") {
        return false;
    }
    if token_at(lit, p + 2 * TOK + 2) != Some(len) || !lit_at(lit, p + 3 * TOK + 2, b"\r\n") {
        return false;
    }
    let mut i = p + 3 * TOK + 4;
    if nhdr >= 1 {
        // "content-type: text/plain\r\n" = 26 bytes
        if !(lit_at(lit, i, b"content-") && lit_at(lit, i + 8, b"type: ") && lit_at(lit, i + 14, b"text/") && lit_at(lit, i + 19, b"plain\r\n")) {
            return false;
        }
        i += 26;
    }
    if nhdr >= 2 {
        // "content-language: en\r\n" = 22 bytes
        if !(lit_at(lit, i, b"content-") && lit_at(lit, i + 8, b"language") && lit_at(lit, i + 16, b": en\r\n")) {
            return false;
        }
        i += 22;
    }
    lit_at(lit, i, b"\r\n") && i + 2 == lit.len()
}

fn check_multi(c: Cfg, d: &EntDraw, rs: &[(u64, u64); 3], resp: crate::body::Body<Chunk, HErr>, st: u16, sn: &Snap<'_>) {
    let n = c.nranges;
    let required = oracle::multipart_required(&rs[..n], d.len);
    let forbidden = oracle::multipart_forbidden(&rs[..n], d.len);
    if st == 200 {
        hdr_assert!(c, !required, "C03: complete 200 although the ranges plus 80 bytes each total under half the entity");
        hdr_assert!(c, sn.count[S_CONTENT_RANGE] == 0, "C02: Content-Range on a 200");
        let cl = parse_whole_decimal(sn.val[S_CONTENT_LENGTH].unwrap());
        hdr_assert!(c, cl == Some(d.len), "C01: Content-Length is not the entity length");
        hdr_assert!(c, entity_headers_present(sn, d), "C14: entity headers missing on 200");
        if c.method == M_HEAD {
            body_check!(c, resp, check_empty_body(resp));
        } else {
            body_check!(c, resp, check_exact_body(resp, 0, d.len, BODY_POLLS));
        }
        return;
    }
    let with_hdrs = c.ir == IR_ABSENT;
    // serve consulted prepare_multipart once, with the resolver's ranges in order, the entity
    // length, and the entity's headers exactly when there is no If-Range
    hdr_assert!(c, unsafe { PM_CALLS } == 1, "C06: multipart response not prepared exactly once");
    hdr_assert!(c, unsafe { PM_N } == n && unsafe { PM_LEN } == d.len, "C06: multipart prepared for a different number of ranges or entity length");
    let mut j = 0;
    while j < 3 {
        if j < n {
            hdr_assert!(c, unsafe { PM_RANGES[j] } == rs[j], "C03/C06: parts are not the requested ranges in request order");
        }
        j += 1;
    }
    hdr_assert!(c, unsafe { PM_INCL } == with_hdrs, "C05/C06/C15: entity headers in the parts do not follow the If-Range rule (for GET and HEAD alike)");
    if with_hdrs {
        hdr_assert!(c, unsafe { PM_INCL_N } == d.nhdr as usize, "C06/C14/C15: parts do not carry exactly the entity's headers");
    }
    if st == 413 {
        // only when the multipart length cannot be expressed (decided by prepare_multipart: prep_unit_*)
        hdr_assert!(c, unsafe { PM_FAIL }, "C03/C13: 413 although the multipart body fits in 64 bits");
        body_check!(c, resp, check_small_body(resp));
        return;
    }
    hdr_assert!(c, !unsafe { PM_FAIL }, "C13: multipart length overflow not answered 413");
    hdr_assert!(c, st == 206, "C03: multi-range request answered with an unexpected status");
    hdr_assert!(c, !forbidden, "C03: multipart although the ranges alone total the entity length or more");
    hdr_assert!(c, sn.count[S_CONTENT_RANGE] == 0, "C06: top-level Content-Range on a multipart response");
    hdr_assert!(c, sn.count[S_CONTENT_TYPE] == 1, "C06: multipart without exactly one Content-Type");
    hdr_assert!(c, bytes_eq(sn.val[S_CONTENT_TYPE].unwrap(), b"multipart/byteranges; boundary=B"), "C06: Content-Type is not multipart/byteranges with the boundary used in the body");
    hdr_assert!(c, sn.count[S_CONTENT_LENGTH] == 1, "C01: multipart 206 without Content-Length");
    let cl = parse_whole_decimal(sn.val[S_CONTENT_LENGTH].unwrap());
    hdr_assert!(c, cl == Some(unsafe { PM_BODYLEN }), "C01: Content-Length is not the multipart body length");
    let cl = unsafe { PM_BODYLEN };
    if c.method == M_HEAD {
        body_check!(c, resp, check_empty_body(resp));
        return;
    }
    expect_kind!(resp, Multipart, bd => check_multi_initial(c, d, rs, bd, cl))
}

/// The MultipartStream serve() hands to the client, before the first poll: it must be the
/// initial state of the state machine verified step by step in `mp_step` (INV with s = 0), with
/// the part headers C06 demands and the length announced in Content-Length (C01).
fn check_multi_initial(c: Cfg, d: &EntDraw, rs: &[(u64, u64); 3], body: crate::body::Body<Chunk, HErr>, cl: u64) {
    let n = c.nranges;
    let hint = http_body::Body::size_hint(&body);
    assert!(hint.lower() == cl && hint.upper() == Some(cl), "C12: multipart size hint differs from Content-Length before the first poll");
    let s = match body.0 {
        crate::body::BodyStream::Multipart(s) => s,
        other => {
            std::mem::forget(other);
            return;
        }
    };
    assert!(s.state == 0 && s.cur.is_none(), "C06: multipart body does not start with the first part's header");
    assert!(s.remaining == cl, "C01: Content-Length differs from the multipart body's own length");
    assert!(s.ranges.len() == n && s.part_headers.len() == n, "C06: number of parts differs from the number of requested ranges");
    let mut j = 0;
    while j < 3 {
        if j < n {
            let (a, b) = rs[j];
            assert!(s.ranges[j].start == a && s.ranges[j].end == b, "C03/C06: a part covers a different range than requested (or parts are reordered)");
            let first = if j == 0 { b'0' } else if j == 1 { b'1' } else { b'2' };
            assert!(s.part_headers[j].len() == 2 && s.part_headers[j][1] == first, "C06: part headers are not the prepared ones in order");
        }
        j += 1;
    }
    std::mem::forget(s);
}

/// two parts: 2 x (header + K_EV events + tail chunk) + trailer + end + 2 polls past the end
pub const MP_POLLS: usize = 12;

/// Stub for `prepare_multipart` in scenarios with fewer than two ranges, where the real code
/// never calls it: the model checker cannot always prune that branch syntactically, and
/// executing it on unconstrained data is what exhausts memory. Reaching the stub is reported.
pub fn stub_prepare_multipart(
    res: http::response::Builder,
    _ranges: &[Range<u64>],
    _len: u64,
    _include_entity_headers: Option<http::header::HeaderMap>,
) -> Result<(http::response::Builder, Vec<Vec<u8>>, u64), MultipartLenOverflowError> {
    assert!(false, "C03: multipart response prepared for a request with fewer than two satisfiable ranges");
    std::mem::forget(res);
    Err(MultipartLenOverflowError)
}

// ---------------------------------------------------------------------------------------
// Decomposition of multi-range responses: inside serve() `prepare_multipart` is replaced by a
// recording stand-in (what serve passes in and what it does with the result is checked in the
// serve_multi_* instances); the real `prepare_multipart` is verified on its own in
// `prep_unit_*`; the body it feeds is the state machine of `mp_step_*`.
pub static mut PM_CALLS: u32 = 0;
pub static mut PM_N: usize = 0;
pub static mut PM_RANGES: [(u64, u64); 3] = [(0, 0); 3];
pub static mut PM_LEN: u64 = 0;
pub static mut PM_INCL: bool = false;
pub static mut PM_INCL_N: usize = 0;
/// drawn by serve_cfg: whether the stand-in reports the 64-bit overflow, and the length it returns
pub static mut PM_FAIL: bool = false;
pub static mut PM_BODYLEN: u64 = 0;

pub fn stub_prepare_multipart_rec(
    mut res: http::response::Builder,
    ranges: &[Range<u64>],
    len: u64,
    include_entity_headers: Option<http::header::HeaderMap>,
) -> Result<(http::response::Builder, Vec<Vec<u8>>, u64), MultipartLenOverflowError> {
    let mut ph: Vec<Vec<u8>> = Vec::with_capacity(3);
    unsafe {
        PM_CALLS += 1;
        PM_N = ranges.len();
        let mut j = 0;
        while j < 3 {
            if j < ranges.len() {
                PM_RANGES[j] = (ranges[j].start, ranges[j].end);
                let mut v = Vec::with_capacity(2);
                v.push(b'H');
                v.push(if j == 0 { b'0' } else if j == 1 { b'1' } else { b'2' });
                ph.push(v);
            }
            j += 1;
        }
        PM_LEN = len;
        PM_INCL = include_entity_headers.is_some();
        PM_INCL_N = match &include_entity_headers {
            Some(h) => h.len(),
            None => 0,
        };
        std::mem::forget(include_entity_headers);
        if PM_FAIL {
            std::mem::forget(res);
            std::mem::forget(ph);
            return Err(MultipartLenOverflowError);
        }
        res = res.header(header::CONTENT_LENGTH, unsafe_fmt_ascii_val!(MAX_DECIMAL_U64_BYTES, "{}", PM_BODYLEN));
        res = res.header(header::CONTENT_TYPE, HeaderValue::from_static("multipart/byteranges; boundary=B"));
        res = res.status(StatusCode::PARTIAL_CONTENT);
        Ok((res, ph, PM_BODYLEN))
    }
}

/// The real `prepare_multipart`, alone (C01, C06, C13).
/// SCENARIO prep_unit_*: len:u64 | 3 x (a:u64 b:u64)
pub fn prep_unit(n: usize, incl: bool, nhdr: u8, need_multi: bool) {
    let len: u64 = kani::any();
    let mut rs = [(0u64, 0u64); 3];
    let mut ranges: Vec<Range<u64>> = Vec::with_capacity(3);
    let mut j = 0;
    while j < 3 {
        let a: u64 = kani::any();
        let b: u64 = kani::any();
        rs[j] = (a, b);
        if j < n {
            kani::assume(a < b && b <= len);
            ranges.push(a..b);
        }
        j += 1;
    }
    if need_multi {
        // range sets for which serve() must answer multipart: counterexamples replay end to end
        kani::assume(oracle::multipart_required(&rs[..n], len));
    }
    let include = if incl {
        let mut h = http::header::HeaderMap::new();
        if nhdr >= 1 {
            h.insert(header::CONTENT_TYPE, HeaderValue::from_static(EH0.1));
        }
        if nhdr >= 2 {
            h.insert(header::CONTENT_LANGUAGE, HeaderValue::from_static(EH1.1));
        }
        Some(h)
    } else {
        None
    };
    let hn = if incl { nhdr } else { 0 };
    let per_part: u128 = 32 + 3 * TOK as u128 + 2 + (if hn >= 1 { 26 } else { 0 }) + (if hn >= 2 { 22 } else { 0 });
    let mut total: u128 = 9;
    let mut j = 0;
    while j < 3 {
        if j < n {
            total += (rs[j].1 - rs[j].0) as u128 + per_part;
        }
        j += 1;
    }
    match prepare_multipart(http::Response::builder(), &ranges[..], len, include) {
        Err(e) => {
            std::mem::forget(e);
            assert!(total > u64::MAX as u128, "C03/C13: multipart refused although its length fits in 64 bits");
        }
        Ok((res, ph, body_len)) => {
            assert!(total <= u64::MAX as u128, "C01: multipart length wrapped around 64 bits");
            assert!(body_len as u128 == total, "C01: announced multipart length is not the sum of part headers, part bodies and the closing delimiter");
            assert!(ph.len() == n, "C06: number of part headers differs from the number of ranges");
            let mut j = 0;
            while j < 3 {
                if j < n {
                    assert!(part_header_ok(&ph[j][..], rs[j].0, rs[j].1, len, hn), "C06: part header is not delimiter + Content-Range a-b/L + entity headers + blank line");
                }
                j += 1;
            }
            let resp = res.body(()).unwrap();
            assert!(resp.status().as_u16() == 206, "C06: multipart response is not a 206");
            let (parts, _) = resp.into_parts();
            let sn = snap(&parts.headers);
            assert!(sn.count[S_CONTENT_LENGTH] == 1 && parse_whole_decimal(sn.val[S_CONTENT_LENGTH].unwrap()) == Some(body_len), "C01: Content-Length of the multipart response is not its body length");
            assert!(sn.count[S_CONTENT_TYPE] == 1 && bytes_eq(sn.val[S_CONTENT_TYPE].unwrap(), b"multipart/byteranges; boundary=B"), "C06: Content-Type is not multipart/byteranges with the boundary used in the body");
            assert!(sn.count[S_CONTENT_RANGE] == 0, "C06: top-level Content-Range on a multipart response");
            std::mem::forget(parts);
            std::mem::forget(ph);
        }
    }
    std::mem::forget(ranges);
    kani::cover!(true, "prepare_multipart compared with the framing model");
}

macro_rules! prep_harness {
    ($name:ident, $n:expr, $incl:expr, $nhdr:expr, $need:expr) => {
        #[kani::proof]
        #[kani::unwind(14)]
        #[kani::stub(<u64 as std::fmt::Display>::fmt, hc::stub_u64_display)]
        pub fn $name() {
            prep_unit($n, $incl, $nhdr, $need)
        }
    };
}
// `_req`: multipart required (replayable); `_any`: every range set (includes the 64-bit overflow)
prep_harness!(prep_unit_n2_noincl_req, 2, false, 0, true);
prep_harness!(prep_unit_n2_noincl_any, 2, false, 0, false);
prep_harness!(prep_unit_n2_h0_req, 2, true, 0, true);
prep_harness!(prep_unit_n2_h0_any, 2, true, 0, false);
prep_harness!(prep_unit_n3_noincl_req, 3, false, 0, true);
prep_harness!(prep_unit_n3_noincl_any, 3, false, 0, false);
// (with entity headers in the parts the instances exhaust 24 GB: not registered)
prep_harness!(prep_unit_n2_h1_req, 2, true, 1, true);
prep_harness!(prep_unit_n2_h2_req, 2, true, 2, true);

macro_rules! serve_harness_nomulti {
    ($name:ident, $cfg:expr) => {
        #[kani::proof]
        #[kani::unwind(14)]
        #[kani::stub(std::time::SystemTime::now, hc::stub_now)]
        #[kani::stub(crate::range::parse, stub_parse)]
        #[kani::stub(<u64 as std::fmt::Display>::fmt, hc::stub_u64_display)]
        #[kani::stub(crate::serving::prepare_multipart, stub_prepare_multipart)]
        pub fn $name() {
            serve_cfg($cfg);
            // vacuity witness: some scenario runs through serve() and all checks of its
            // response class (covers inside the shared checking code would sit in branches
            // that are unreachable for this instance's constant structure)
            kani::cover!(true, "response checked");
        }
    };
}

macro_rules! serve_harness {
    ($name:ident, $cfg:expr) => {
        #[kani::proof]
        #[kani::unwind(14)]
        #[kani::stub(std::time::SystemTime::now, hc::stub_now)]
        #[kani::stub(crate::range::parse, stub_parse)]
        #[kani::stub(<u64 as std::fmt::Display>::fmt, hc::stub_u64_display)]
        #[kani::stub(crate::serving::prepare_multipart, stub_prepare_multipart_rec)]
        pub fn $name() {
            serve_cfg($cfg);
            // vacuity witness: some scenario runs through serve() and all checks of its
            // response class (covers inside the shared checking code would sit in branches
            // that are unreachable for this instance's constant structure)
            kani::cover!(true, "response checked");
        }
    };
}

// =======================================================================================
// C04: parse_modified_hdrs against the RFC 7232 precedence model.

pub struct PDraw {
    pub sk: u16,
    pub has_mtime: bool,
    pub m_secs: u64,
    pub m_nanos: u32,
    pub ius: u64,
    pub ims: u64,
}

pub fn draw_precond() -> PDraw {
    let p = PDraw {
        sk: kani::any(),
        has_mtime: kani::any(),
        m_secs: kani::any(),
        m_nanos: kani::any(),
        ius: kani::any(),
        ims: kani::any(),
    };
    kani::assume(p.m_nanos < 1_000_000_000);
    kani::assume(p.m_secs <= httpdate::MAX_SECS && p.ius <= httpdate::MAX_SECS && p.ims <= httpdate::MAX_SECS);
    p
}

/// One structural arm: which validators are present and what the tag lists say (constants);
/// the modification time (with sub-second part) and both dates are symbolic.
pub fn precond_case(
    p: &PDraw,
    etag: u8,
    im: Option<&'static str>,
    im_tags: &[&[u8]],
    inm: Option<&'static str>,
    inm_tags: &[&[u8]],
    has_ius: bool,
    has_ims: bool,
) {
    let et = etag_text(etag);
    let etag_hv = et.map(HeaderValue::from_static);
    let mut h = HeaderMap::new();
    if let Some(t) = im {
        h.insert(header::IF_MATCH, HeaderValue::from_static(t));
    }
    if let Some(t) = inm {
        h.insert(header::IF_NONE_MATCH, HeaderValue::from_static(t));
    }
    if has_ius {
        h.insert(header::IF_UNMODIFIED_SINCE, HeaderValue::model_from_inline(&httpdate::model_token_bytes(p.ius)));
    }
    if has_ims {
        h.insert(header::IF_MODIFIED_SINCE, HeaderValue::model_from_inline(&httpdate::model_token_bytes(p.ims)));
    }
    let lm = if p.has_mtime { Some(UNIX_EPOCH + Duration::new(p.m_secs, p.m_nanos)) } else { None };
    let got = parse_modified_hdrs(&etag_hv, &h, lm);

    let eb = et.map(|t| t.as_bytes());
    let im_c = match im {
        None => TagCond::Absent,
        Some(t) => oracle::tag_cond(t.len() == 1 && t.as_bytes()[0] == b'*', im_tags, eb, true),
    };
    let inm_c = match inm {
        None => TagCond::Absent,
        Some(t) => oracle::tag_cond(t.len() == 1 && t.as_bytes()[0] == b'*', inm_tags, eb, false),
    };
    let mt = if p.has_mtime { Some(p.m_secs) } else { None };
    let exp_pf = oracle::precondition_failed(im_c, if has_ius { Some(p.ius) } else { None }, mt);
    let exp_nm = oracle::not_modified(inm_c, if has_ims { Some(p.ims) } else { None }, mt);
    match got {
        Ok((pf, nm)) => {
            // C14: a client that echoes the served Last-Modified (the modification time truncated to
            // the second) gets the cache-friendly answer
            if p.has_mtime && has_ius && im.is_none() && p.ius == p.m_secs {
                assert!(!pf, "C14: If-Unmodified-Since with the served Last-Modified answered 412");
            }
            if p.has_mtime && has_ims && inm.is_none() && p.ims == p.m_secs && !exp_pf {
                assert!(nm, "C14: If-Modified-Since with the served Last-Modified not answered 304");
            }
            assert!(pf == exp_pf, "C04: 412 decision deviates from RFC 7232 (If-Match strong comparison; If-Unmodified-Since only without If-Match, against the modification second)");
            assert!(nm == exp_nm, "C04: 304 decision deviates from RFC 7232 (If-None-Match weak comparison; If-Modified-Since only without If-None-Match, against the modification second)");
        }
        Err(_) => assert!(false, "C04: well-formed validators rejected as a bad request"),
    }
    // (which outcomes occur depends on the group's header arms: not a vacuity witness)
    kani::cover!(true, "outcome compared with the RFC 7232 precedence model");
}

// =======================================================================================
// MultipartStream as a state machine: ONE poll from an arbitrary state that satisfies the
// invariant below (C01, C06, C12, C20 for multipart bodies). Whole drains through serve()
// did not finish symbolic execution (> 20 min, see DESIGN.md section 5b); the initial state
// serve() hands over is checked in the `_hd` multi instances (check_multi_initial).
//
// INV(state s, i = s >> 1, n parts, H_j = len(part_headers[j]), L_j = b_j - a_j, T = 9):
//   s = 2i   (i < n): cur = None, part_headers[j] intact for j >= i,
//                     remaining = sum_{j >= i} (H_j + L_j) + T
//   s = 2i+1 (i < n): cur = None (stream not opened yet, x = L_i) or cur = ExactLen{remaining: x}
//                     over the entity stream positioned at b_i - x,
//                     remaining = x + sum_{j > i} (H_j + L_j) + T
//   s = 2n: remaining = T          s = 2n+1: remaining = 0, cur = None
// By induction over polls: the frames are header_0, bytes a_0..b_0, header_1, ..., trailer in
// this order and position (C06), their lengths sum to the initial `remaining`, which serve()
// announces as Content-Length (C01), the exact size hint is `remaining` at every step (C12),
// and the end / fused state is absorbing (C20).

#[derive(Clone, Copy)]
pub struct MpCfg {
    pub n: usize,
    pub state: usize,
    /// the current part's stream is already open (odd states below 2n only)
    pub cur: bool,
    /// what the entity stream does when polled: EV_PENDING / EV_CHUNK / EV_ERR
    pub ev: u8,
    /// restrict to range sets for which serve() must answer multipart (replayable end to end)
    pub need_multi: bool,
}

fn mp_header(j: usize, hl: usize, taken: bool) -> Vec<u8> {
    if taken {
        return Vec::new();
    }
    let mut v = Vec::with_capacity(8);
    let first = if j == 0 { b'0' } else if j == 1 { b'1' } else { b'2' };
    v.extend_from_slice(&[first, b'h', b'e', b'a', b'd', b'e', b'r', b'\n']);
    v.truncate(hl);
    v
}

/// SCENARIO mp_step_*: len:u64 | 3 x (a:u64 b:u64) | 3 x hlen:usize | x:u64 | ev_n:u64
pub fn mp_step(c: MpCfg) {
    let len: u64 = kani::any();
    let mut rs = [(0u64, 0u64); 3];
    let mut j = 0;
    while j < 3 {
        let a: u64 = kani::any();
        let b: u64 = kani::any();
        rs[j] = (a, b);
        if j < c.n {
            kani::assume(a < b && b <= len);
        }
        j += 1;
    }
    let mut hl = [0usize; 3];
    let mut j = 0;
    while j < 3 {
        let h: usize = kani::any();
        kani::assume(h >= 1 && h <= 8);
        hl[j] = h;
        j += 1;
    }
    let x: u64 = kani::any();
    let ev_n: u64 = kani::any();
    if c.need_multi {
        kani::assume(oracle::multipart_required(&rs[..c.n], len));
    }
    let n = c.n;
    let i = c.state >> 1;
    let odd = (c.state & 1) == 1;
    let li = if i < n { rs[i].1 - rs[i].0 } else { 0 };
    let cur_open = c.cur && odd && i < n;
    if cur_open {
        kani::assume(x <= li);
    }
    let xeff = if cur_open { x } else { li };
    // remaining per INV, in 128 bits; prepare_multipart guarantees the total fits in u64
    let mut future: u128 = 9;
    let mut j = 0;
    while j < 3 {
        if j < n && j > i {
            future += hl[j] as u128 + (rs[j].1 - rs[j].0) as u128;
        }
        j += 1;
    }
    let rem128: u128 = if c.state == 2 * n + 1 {
        0
    } else if c.state == 2 * n {
        9
    } else if odd {
        xeff as u128 + future
    } else {
        hl[i] as u128 + li as u128 + future
    };
    kani::assume(rem128 <= u64::MAX as u128);
    let remaining = rem128 as u64;

    let mut part_headers: Vec<Vec<u8>> = Vec::with_capacity(3);
    let mut ranges: Vec<std::ops::Range<u64>> = Vec::with_capacity(3);
    let mut j = 0;
    while j < 3 {
        if j < n {
            part_headers.push(mp_header(j, hl[j], j < i || (j == i && odd)));
            ranges.push(rs[j].0..rs[j].1);
        }
        j += 1;
    }
    unsafe {
        SCRIPTS[0] = [Ev { kind: c.ev, n: ev_n }; K_EV];
        FAULTY = false;
        CALLS = 0;
    }
    let ent = HEnt { len, etag: 0, etag_bytes: None, mtime: None, nhdr: 0 };
    let cur = if cur_open {
        Some(crate::body::ExactLenStream::new(x, script_stream_at(rs[i].1 - x, rs[i].1, 0)))
    } else {
        None
    };
    let mut s: MultipartStream<Chunk, HErr> = MultipartStream { cur, state: c.state, part_headers, ranges, entity: Box::new(ent), remaining };

    // ---- the step (on the stream itself: inside the Body enum the state is no longer a
    // constant for the model checker and the `loop` in poll_next unrolls to the bound)
    let mut cx = std::task::Context::from_waker(std::task::Waker::noop());
    let r = futures_core::Stream::poll_next(std::pin::Pin::new(&mut s), &mut cx);
    let state2 = s.state;
    let rem2 = s.remaining;
    let cur2_rem: Option<u64> = match s.cur.take() {
        Some(e) => {
            let b: crate::body::Body<Chunk, HErr> = crate::body::Body(crate::body::BodyStream::ExactLen(e));
            let h = http_body::Body::size_hint(&b).lower();
            std::mem::forget(b);
            Some(h)
        }
        None => None,
    };
    let mut hl2 = [0usize; 3];
    let mut j = 0;
    while j < 3 {
        if j < n {
            hl2[j] = s.part_headers[j].len();
        }
        j += 1;
    }
    // C12 on the post-state, through the real Body wrapper (the pre-state of the next step)
    let body: crate::body::Body<Chunk, HErr> = crate::body::Body(crate::body::BodyStream::Multipart(s));
    let hint = http_body::Body::size_hint(&body);
    let eos2 = http_body::Body::is_end_stream(&body);
    std::mem::forget(body);
    assert!(hint.lower() == rem2 && hint.upper() == Some(rem2), "C12: multipart size hint is not the stream's count of bytes still to come");
    assert!(!eos2 || state2 == 2 * n + 1, "C12: is_end_stream() before the multipart body was complete");
    let calls = unsafe { CALLS };
    // what the entity stream does at this point: nothing left -> end; else the scripted event
    let stream_ends = odd && i < n && xeff == 0;
    let after_part = stream_ends; // continues with the next header or the trailer
    let ni = if after_part { i + 1 } else { i };
    let mut delivered: u64 = 0;
    if c.state == 2 * n + 1 {
        match r {
            Poll::Ready(None) => {}
            other => {
                std::mem::forget(other);
                assert!(false, "C20: a finished or failed multipart body produced something");
            }
        }
        assert!(state2 == c.state && rem2 == 0 && cur2_rem.is_none(), "C20: the end state of the multipart body is not absorbing");
    } else if c.state == 2 * n || (after_part && ni == n) {
        // trailer
        match r {
            Poll::Ready(Some(Ok(Chunk::Stat(t)))) => {
                assert!(bytes_eq(t, b"\r\n--B--\r\n"), "C06: closing delimiter is not --B--");
                delivered = t.len() as u64;
            }
            other => {
                std::mem::forget(other);
                assert!(false, "C06: closing delimiter expected after the last part");
            }
        }
        assert!(state2 == 2 * n + 1 && cur2_rem.is_none(), "C06/C20: state after the closing delimiter is not the end state");
    } else if !odd || after_part {
        // header of part ni
        match r {
            Poll::Ready(Some(Ok(Chunk::Lit(v)))) => {
                let first = if ni == 0 { b'0' } else if ni == 1 { b'1' } else { b'2' };
                assert!(v.len() == hl[ni] && v[0] == first, "C06: not the header block of the next part (order of parts)");
                delivered = v.len() as u64;
                std::mem::forget(v);
            }
            other => {
                std::mem::forget(other);
                assert!(false, "C06: part header expected before the part's bytes");
            }
        }
        assert!(state2 == 2 * ni + 1 && cur2_rem.is_none(), "C06: state after a part header is not 'send this part's body'");
    } else {
        // entity bytes of part i: the scripted event
        if !cur_open {
            assert!(calls == 1 && unsafe { CALL_LOG[0] } == rs[i], "C06: entity asked for a different range than the part announces");
        } else {
            assert!(calls == 0, "C01/C06: the part's stream was opened a second time (bytes would be delivered twice)");
        }
        match r {
            Poll::Pending => {
                assert!(c.ev == EV_PENDING, "C01: Pending although the entity stream delivered something (it is lost)");
                assert!(state2 == c.state && cur2_rem == Some(xeff), "C01/C06: a Pending poll lost the current part's stream or its position");
            }
            Poll::Ready(Some(Ok(d))) => {
                assert!(c.ev == EV_CHUNK, "C06: data although the entity stream had none");
                match d {
                    Chunk::Ent { start, len: l } => {
                        let want = if ev_n <= xeff { ev_n } else { xeff };
                        assert!(start == rs[i].1 - xeff && l == want, "C06: entity bytes out of place inside a part");
                        delivered = l;
                    }
                    o => {
                        std::mem::forget(o);
                        assert!(false, "C06: entity bytes expected inside a part");
                    }
                }
                assert!(state2 == c.state && cur2_rem == Some(xeff - delivered), "C01: bytes of the current part not accounted for");
            }
            Poll::Ready(Some(Err(e))) => {
                std::mem::forget(e);
                assert!(c.ev == EV_ERR, "C01: contract-honouring entity but the multipart body failed");
                assert!(state2 == 2 * n + 1 && cur2_rem.is_none() && rem2 == 0, "C20: the multipart body is not fused after an entity error");
            }
            Poll::Ready(None) => assert!(false, "C01: multipart body ended before all parts were delivered"),
        }
    }
    let failed = c.ev == EV_ERR && odd && i < n && !stream_ends && c.state < 2 * n;
    if !failed {
        assert!(rem2 == remaining - delivered, "C01/C12: `remaining` is not reduced by exactly the frame's length");
    }
    // untouched headers stay untouched (each part's header is sent once, later)
    let mut j = 0;
    while j < 3 {
        if j < n && j > ni && !failed {
            assert!(hl2[j] == hl[j], "C06: a later part's header was consumed early");
        }
        j += 1;
    }
    kani::cover!(true, "post-state reached");
}

macro_rules! mp_harness {
    ($name:ident, $cfg:expr) => {
        #[kani::proof]
        #[kani::unwind(10)]
        pub fn $name() {
            mp_step($cfg)
        }
    };
}

#[path = "mp_gen.rs"]
pub mod mpgen;

#[path = "precond_gen.rs"]
pub mod pgen;

#[path = "serve_gen.rs"]
pub mod gen;





