// Property oracles: small, dependency-free reference models written independently of the
// implementation. This file is `#[path]`-included both by the Kani harnesses (so the solver
// compares the real code with the model on symbolic inputs) and by the native replayer
// (so a counterexample is re-judged against the real build).
#![allow(dead_code)]

/// One byte-range-spec of a grammatical `bytes=` set, numbers already parsed.
/// `None` numbers stand for a DIGIT string that does not fit in u64.
#[derive(Clone, Copy, Debug, PartialEq, Eq)]
pub enum Spec {
    /// first-byte-pos "-" last-byte-pos
    FirstLast(Option<u64>, Option<u64>),
    /// first-byte-pos "-"
    From(Option<u64>),
    /// "-" suffix-length
    Suffix(Option<u64>),
}

/// RFC 7233 section 2.1 resolution of one spec against an entity of `len > 0` bytes,
/// as a half-open range; `None` = selects nothing (dropped).
pub fn resolve_spec(s: Spec, len: u64) -> Option<(u64, u64)> {
    match s {
        Spec::FirstLast(Some(first), Some(last)) => {
            if first >= len || first > last {
                None
            } else if last >= len - 1 {
                Some((first, len))
            } else {
                Some((first, last + 1))
            }
        }
        Spec::From(Some(first)) => {
            if first >= len {
                None
            } else {
                Some((first, len))
            }
        }
        Spec::Suffix(Some(n)) => {
            if n == 0 || len == 0 {
                None
            } else if n >= len {
                Some((0, len))
            } else {
                Some((len - n, len))
            }
        }
        _ => None,
    }
}

pub fn spec_parseable(s: Spec) -> bool {
    match s {
        Spec::FirstLast(a, b) => a.is_some() && b.is_some(),
        Spec::From(a) => a.is_some(),
        Spec::Suffix(a) => a.is_some(),
    }
}

/// first <= last, the one grammatical side condition RFC 7233 puts on numbers.
pub fn spec_grammatical(s: Spec) -> bool {
    match s {
        Spec::FirstLast(Some(a), Some(b)) => a <= b,
        _ => true,
    }
}

// ---------------------------------------------------------------------------------------
// RFC 7232 section 6 precedence (C04), over already-classified validators.

#[derive(Clone, Copy, Debug, PartialEq, Eq)]
pub enum TagCond {
    Absent,
    Star,
    /// A well-formed list; `matched` = some element matches the entity's ETag under the
    /// comparison the header calls for (strong for If-Match, weak for If-None-Match);
    /// always false when the entity has no ETag.
    List { matched: bool },
}

#[derive(Clone, Copy, Debug, PartialEq, Eq)]
pub enum Precond {
    Failed412,
    NotModified304,
    Continue,
}

/// `mtime_secs`: the entity's modification time truncated to whole seconds since the epoch
/// (None = entity has none). `ius` / `ims`: parsed If-Unmodified-Since / If-Modified-Since.
pub fn precondition(
    if_match: TagCond,
    ius: Option<u64>,
    if_none_match: TagCond,
    ims: Option<u64>,
    mtime_secs: Option<u64>,
) -> Precond {
    let failed = match if_match {
        TagCond::Star => false,
        TagCond::List { matched } => !matched,
        TagCond::Absent => match (mtime_secs, ius) {
            (Some(m), Some(d)) => d < m,
            _ => false,
        },
    };
    if failed {
        return Precond::Failed412;
    }
    let not_modified = match if_none_match {
        TagCond::Star => true,
        TagCond::List { matched } => matched,
        TagCond::Absent => match (mtime_secs, ims) {
            (Some(m), Some(d)) => m <= d,
            _ => false,
        },
    };
    if not_modified {
        Precond::NotModified304
    } else {
        Precond::Continue
    }
}

/// Entity-tag syntax: [ "W/" ] DQUOTE *etagc DQUOTE, etagc excludes DQUOTE.
pub fn is_entity_tag(t: &[u8]) -> bool {
    let b = if t.len() >= 2 && t[0] == b'W' && t[1] == b'/' { &t[2..] } else { t };
    if b.len() < 2 || b[0] != b'"' || b[b.len() - 1] != b'"' {
        return false;
    }
    let mut i = 1;
    while i + 1 < b.len() {
        if b[i] == b'"' {
            return false;
        }
        i += 1;
    }
    true
}
pub fn tag_is_weak(t: &[u8]) -> bool {
    t.len() >= 2 && t[0] == b'W' && t[1] == b'/'
}
fn opaque(t: &[u8]) -> &[u8] {
    if tag_is_weak(t) {
        &t[2..]
    } else {
        t
    }
}
fn slices_eq(a: &[u8], b: &[u8]) -> bool {
    if a.len() != b.len() {
        return false;
    }
    let mut i = 0;
    while i < a.len() {
        if a[i] != b[i] {
            return false;
        }
        i += 1;
    }
    true
}
/// RFC 7232 section 2.3.2.
pub fn tags_weak_eq(a: &[u8], b: &[u8]) -> bool {
    slices_eq(opaque(a), opaque(b))
}
pub fn tags_strong_eq(a: &[u8], b: &[u8]) -> bool {
    !tag_is_weak(a) && !tag_is_weak(b) && slices_eq(a, b)
}

// ---------------------------------------------------------------------------------------
// Multi-range dispatch (C03): when must / must not a multipart response be used.

/// Sum of (len_i + per_part) without overflow; None = does not fit in u128 (never for <= 2^16 parts).
pub fn ranges_total(ranges: &[(u64, u64)], per_part: u64) -> u128 {
    let mut t: u128 = 0;
    let mut i = 0;
    while i < ranges.len() {
        t += (ranges[i].1 - ranges[i].0) as u128 + per_part as u128;
        i += 1;
    }
    t
}
/// The property's "at least whenever": ranges plus 80 bytes each total under half the entity.
pub fn multipart_required(ranges: &[(u64, u64)], len: u64) -> bool {
    ranges.len() >= 2 && ranges_total(ranges, 80) * 2 < len as u128
}
/// "never when the ranges alone total L or more".
pub fn multipart_forbidden(ranges: &[(u64, u64)], len: u64) -> bool {
    ranges_total(ranges, 0) >= len as u128
}

// ---------------------------------------------------------------------------------------
// RFC 7231 section 5.3.4 (C16).

#[derive(Clone, Copy, Debug, PartialEq, Eq)]
pub enum Coding {
    Gzip,
    Identity,
    Star,
    Other,
}

/// `elems`: the list elements in order, weight in thousandths (1000 when absent).
/// The last occurrence of a coding wins (what every list-folding implementation does).
pub fn gzip_preferred(elems: &[(Coding, u16)]) -> bool {
    let mut gzip: Option<u16> = None;
    let mut identity: Option<u16> = None;
    let mut star: Option<u16> = None;
    let mut i = 0;
    while i < elems.len() {
        match elems[i].0 {
            Coding::Gzip => gzip = Some(elems[i].1),
            Coding::Identity => identity = Some(elems[i].1),
            Coding::Star => star = Some(elems[i].1),
            Coding::Other => {}
        }
        i += 1;
    }
    let gq = match (gzip, star) {
        (Some(q), _) => q,
        (None, Some(q)) => q,
        (None, None) => 0,
    };
    // identity: own weight, else `*`'s, else the least-preferred acceptable coding.
    let iq = match (identity, star) {
        (Some(q), _) => q,
        (None, Some(q)) => q,
        (None, None) => 1,
    };
    gq > 0 && gq >= iq
}

/// RFC 7231 section 5.3.1 qvalue -> thousandths; None = not a qvalue.
pub fn qvalue(b: &[u8]) -> Option<u16> {
    if b.is_empty() || b.len() > 5 {
        return None;
    }
    if b[0] != b'0' && b[0] != b'1' {
        return None;
    }
    if b.len() == 1 {
        return Some(if b[0] == b'1' { 1000 } else { 0 });
    }
    if b[1] != b'.' {
        return None;
    }
    let mut v: u16 = 0;
    let mut i = 2;
    while i < 5 {
        v *= 10;
        if i < b.len() {
            let c = b[i];
            if c < b'0' || c > b'9' {
                return None;
            }
            if b[0] == b'1' && c != b'0' {
                return None;
            }
            v += (c - b'0') as u16;
        }
        i += 1;
    }
    Some(if b[0] == b'1' { 1000 } else { v })
}

/// Decimal text -> u64; None unless 1..=20 digits that fit.
pub fn parse_decimal(b: &[u8]) -> Option<u64> {
    if b.is_empty() || b.len() > 20 {
        return None;
    }
    let mut v: u128 = 0;
    let mut i = 0;
    while i < b.len() {
        if b[i] < b'0' || b[i] > b'9' {
            return None;
        }
        v = v * 10 + (b[i] - b'0') as u128;
        i += 1;
    }
    if v > u64::MAX as u128 {
        None
    } else {
        Some(v as u64)
    }
}

/// The two halves of `precondition`, separately.
pub fn precondition_failed(if_match: TagCond, ius: Option<u64>, mtime_secs: Option<u64>) -> bool {
    precondition(if_match, ius, TagCond::Absent, None, mtime_secs) == Precond::Failed412
}
pub fn not_modified(if_none_match: TagCond, ims: Option<u64>, mtime_secs: Option<u64>) -> bool {
    precondition(TagCond::Absent, None, if_none_match, ims, mtime_secs) == Precond::NotModified304
}

/// Classifies a concrete tag list (`*`, or the listed tags) against an entity tag.
pub fn tag_cond(star: bool, tags: &[&[u8]], etag: Option<&[u8]>, strong: bool) -> TagCond {
    if star {
        return TagCond::Star;
    }
    let mut matched = false;
    if let Some(e) = etag {
        let mut i = 0;
        while i < tags.len() {
            if strong {
                if tags_strong_eq(tags[i], e) {
                    matched = true;
                }
            } else if tags_weak_eq(tags[i], e) {
                matched = true;
            }
            i += 1;
        }
    }
    TagCond::List { matched }
}
