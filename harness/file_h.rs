// Kani harnesses for src/file.rs (C18, partial). Injected as `file::verif_h`.
//
// What is executed: the real `ChunkedReadFile::get_range` (futures_util::stream::unfold over
// the real async block), `etag`, `len`, `last_modified`. What is NOT: `std::fs::File` /
// `Metadata` (only the operating system can produce them) and `platform::FileExt::read_at`
// (libc::pread), which is replaced by a stub that answers according to its documented contract
// ("reads at least 1, at most chunk_size bytes beginning at offset, or fails") and records its
// arguments. The constructor (`is_file`, `file_info`) is therefore outside the claim.
//
// The unfold state is just the remaining range, so `get_range(a..b)` IS the arbitrary mid-state
// of a longer read: two polls from an arbitrary range cover streams of any length by induction.
#![allow(dead_code, unused_imports, static_mut_refs)]

use super::*;
use std::os::unix::io::FromRawFd;
use std::task::{Context, Poll};

/// Data type that only remembers how long the chunk was (the Vec the stub hands out claims a
/// length without owning memory: nothing may read it).
pub struct LenOnly(pub usize);
impl Buf for LenOnly {
    fn remaining(&self) -> usize {
        self.0
    }
    fn chunk(&self) -> &[u8] {
        &[]
    }
    fn advance(&mut self, _cnt: usize) {}
}
impl From<Vec<u8>> for LenOnly {
    fn from(v: Vec<u8>) -> Self {
        let n = v.len();
        std::mem::forget(v);
        LenOnly(n)
    }
}
impl From<&'static [u8]> for LenOnly {
    fn from(v: &'static [u8]) -> Self {
        LenOnly(v.len())
    }
}
pub struct FErr;
impl From<Box<dyn StdError + Send + Sync>> for FErr {
    fn from(b: Box<dyn StdError + Send + Sync>) -> Self {
        std::mem::forget(b);
        FErr
    }
}
impl From<FErr> for Box<dyn StdError + Send + Sync> {
    fn from(_: FErr) -> Self {
        Box::new(std::fmt::Error)
    }
}

pub static mut RA_CALLS: usize = 0;
pub static mut RA_LOG: [(usize, u64); 3] = [(0, 0); 3];
/// (fails, bytes) per call
pub static mut RA_SCRIPT: [(bool, usize); 3] = [(false, 0); 3];

/// Stub for `<std::fs::File as platform::FileExt>::read_at`.
pub fn stub_read_at(_f: &std::fs::File, chunk_size: usize, offset: u64) -> io::Result<Vec<u8>> {
    let c = unsafe {
        let c = RA_CALLS;
        if c == 0 {
            RA_LOG[0] = (chunk_size, offset);
        } else if c == 1 {
            RA_LOG[1] = (chunk_size, offset);
        } else if c == 2 {
            RA_LOG[2] = (chunk_size, offset);
        }
        RA_CALLS += 1;
        c
    };
    let (fails, n) = unsafe {
        if c == 0 {
            RA_SCRIPT[0]
        } else if c == 1 {
            RA_SCRIPT[1]
        } else {
            RA_SCRIPT[2]
        }
    };
    if fails {
        return Err(io::Error::from(io::ErrorKind::UnexpectedEof));
    }
    // contract: between 1 and chunk_size bytes
    let k = if n >= 1 && n <= chunk_size { n } else { chunk_size };
    // a Vec that claims k bytes without owning memory (LenOnly::from forgets it unread)
    Ok(unsafe { Vec::from_raw_parts(std::ptr::NonNull::<u8>::dangling().as_ptr(), k, k) })
}

fn entity(len: u64, inode: u64, secs: u64, nanos: u32) -> ChunkedReadFile<LenOnly, FErr> {
    // a File object that is never used (read_at is stubbed) and never closed (forgotten)
    let f = unsafe { std::fs::File::from_raw_fd(3) };
    ChunkedReadFile {
        inner: Arc::new(ChunkedReadFileInner {
            len,
            inode,
            mtime: time::UNIX_EPOCH + time::Duration::new(secs, nanos),
            f,
            headers: HeaderMap::new(),
        }),
        phantom: std::marker::PhantomData,
    }
}

/// SCENARIO file_range_step: len:u64 a:u64 b:u64 | 3 x (fails:bool n:usize)
#[kani::proof]
#[kani::unwind(6)]
#[kani::stub(<std::fs::File as crate::platform::FileExt>::read_at, stub_read_at)]
pub fn file_range_step() {
    range_step(false)
}

/// The same for files that can be materialised on disk (<= 64 MiB): counterexamples of this
/// instance are replayed natively on a real temporary file.
#[kani::proof]
#[kani::unwind(6)]
#[kani::stub(<std::fs::File as crate::platform::FileExt>::read_at, stub_read_at)]
pub fn file_range_step_small() {
    range_step(true)
}

fn range_step(small: bool) {
    let len: u64 = kani::any();
    let a: u64 = kani::any();
    let b: u64 = kani::any();
    kani::assume(a <= b && b <= len);
    if small {
        kani::assume(len <= 1 << 26);
    }
    let mut i = 0;
    while i < 3 {
        let fails: bool = kani::any();
        let n: usize = kani::any();
        unsafe {
            RA_SCRIPT[i] = (fails, n);
        }
        i += 1;
    }
    let e = entity(len, 1, 0, 0);
    assert!(Entity::len(&e) == len, "C18: len() is not the length captured at construction");
    let mut s = e.get_range(a..b);
    let mut cx = Context::from_waker(std::task::Waker::noop());
    let mut pos = a; // next byte the stream owes
    let mut k = 0;
    let mut ended = false;
    let mut failed = false;
    while k < 2 {
        if !ended {
            let calls_before = unsafe { RA_CALLS };
            match s.as_mut().poll_next(&mut cx) {
                Poll::Ready(Some(Ok(d))) => {
                    let n = d.0 as u64;
                    assert!(n >= 1, "C18: empty chunk");
                    assert!(n <= b - pos, "C18: chunk reaches beyond the requested range");
                    // exactly one positioned read, at the next owed byte, for at most CHUNK_SIZE
                    // bytes and never beyond the range
                    assert!(unsafe { RA_CALLS } == calls_before + 1, "C18: a chunk without exactly one read");
                    let (cs, off) = unsafe { if calls_before == 0 { RA_LOG[0] } else if calls_before == 1 { RA_LOG[1] } else { RA_LOG[2] } };
                    assert!(off == pos, "C18: read at a position other than the next byte of the range (bytes skipped or repeated)");
                    assert!(cs as u64 <= b - pos && cs as u64 <= 65_536 && cs >= 1, "C18: read size is not min(chunk size, remaining range)");
                    pos += n;
                }
                Poll::Ready(Some(Err(_e))) => {
                    std::mem::forget(_e);
                    failed = true;
                    let (cs, off) = unsafe { if calls_before == 0 { RA_LOG[0] } else if calls_before == 1 { RA_LOG[1] } else { RA_LOG[2] } };
                    assert!(unsafe { RA_CALLS } == calls_before + 1 && off == pos, "C18: error without a failed read at the next byte");
                    let fails = unsafe { if calls_before == 0 { RA_SCRIPT[0].0 } else if calls_before == 1 { RA_SCRIPT[1].0 } else { RA_SCRIPT[2].0 } };
                    assert!(fails, "C18: the stream failed although the read succeeded");
                }
                Poll::Ready(None) => {
                    assert!(pos == b, "C18: the stream ended before the whole range was delivered (short body)");
                    assert!(unsafe { RA_CALLS } == calls_before, "C18: a read after the range was complete");
                    ended = true;
                }
                Poll::Pending => assert!(false, "C18: the file stream returned Pending (it never registers a waker)"),
            }
        }
        k += 1;
    }
    // a failed read is reported, never swallowed
    let mut j = 0;
    while j < 2 {
        let done = unsafe { RA_CALLS };
        if j < done && unsafe { RA_SCRIPT[j].0 } {
            assert!(failed, "C18: a failed read (file truncated) did not surface as a stream error");
        }
        j += 1;
    }
    kani::cover!(pos > a && !failed, "a chunk was delivered");
    kani::cover!(ended && b > a, "a non-empty range completed within two polls");
    kani::cover!(failed, "a read failure surfaced");
    std::mem::forget(s);
    std::mem::forget(e);
}

/// Stubs for `<u64 as LowerHex>::fmt` / `<u32 as LowerHex>::fmt`: fixed-width numerals of the
/// MAXIMUM width of the real rendering (16 / 8 characters, letters a..p for the nibbles), so
/// that the buffer `etag()` reserves is exercised at its limit. Hexadecimal rendering itself is
/// std's code and outside the claim.
pub fn stub_u64_lowerhex(x: &u64, f: &mut std::fmt::Formatter<'_>) -> std::fmt::Result {
    let mut t = [0u8; 16];
    let mut i = 0;
    while i < 16 {
        t[i] = b'a' + ((*x >> (60 - 4 * i)) & 15) as u8;
        i += 1;
    }
    f.write_str(unsafe { std::str::from_utf8_unchecked(&t) })
}
pub fn stub_u32_lowerhex(x: &u32, f: &mut std::fmt::Formatter<'_>) -> std::fmt::Result {
    let mut t = [0u8; 8];
    let mut i = 0;
    while i < 8 {
        t[i] = b'a' + ((*x >> (28 - 4 * i)) & 15) as u8;
        i += 1;
    }
    f.write_str(unsafe { std::str::from_utf8_unchecked(&t) })
}

fn field(b: &[u8], at: usize, width: usize) -> u64 {
    let mut v: u64 = 0;
    let mut i = 0;
    while i < 16 {
        if i < width {
            let c = b[at + i];
            assert!(c >= b'a' && c <= b'p', "C18: unexpected character inside an ETag field");
            v = (v << 4) | (c - b'a') as u64;
        }
        i += 1;
    }
    v
}

/// ETag: a quoted (strong) tag made of inode:len:secs:nanos -- hence identical for identical
/// metadata and different as soon as one of them differs (fixed-width fields: the rendering is
/// injective) -- that fits the buffer the code reserves; last_modified is the captured time.
/// SCENARIO file_etag_syntax: len:u64 inode:u64 secs:u64 nanos:u32
#[kani::proof]
#[kani::unwind(20)]
#[kani::stub(<u64 as std::fmt::LowerHex>::fmt, stub_u64_lowerhex)]
#[kani::stub(<u32 as std::fmt::LowerHex>::fmt, stub_u32_lowerhex)]
pub fn file_etag_syntax() {
    let len: u64 = kani::any();
    let inode: u64 = kani::any();
    let secs: u64 = kani::any();
    let nanos: u32 = kani::any();
    // (modification times up to the year 9999: SystemTime arithmetic beyond i64 seconds panics in std)
    kani::assume(nanos < 1_000_000_000 && secs <= 253_402_300_799);
    let e = entity(len, inode, secs, nanos);
    assert!(Entity::last_modified(&e) == Some(time::UNIX_EPOCH + time::Duration::new(secs, nanos)), "C18: last_modified() is not the captured modification time");
    let t = Entity::etag(&e).expect("etag");
    let b = t.as_bytes();
    assert!(b.len() == 16 * 3 + 8 + 5, "C18: ETag does not have the four fields at full width");
    assert!(b[0] == b'"' && b[60] == b'"', "C18: ETag is not a quoted (strong) entity-tag");
    assert!(b[17] == b':' && b[34] == b':' && b[51] == b':', "C18: ETag fields are not separated by ':'");
    assert!(field(b, 1, 16) == inode, "C18: first ETag field is not the file identity (inode)");
    assert!(field(b, 18, 16) == len, "C18: second ETag field is not the length");
    assert!(field(b, 35, 16) == secs, "C18: third ETag field is not the modification time (seconds)");
    assert!(field(b, 52, 8) == nanos as u64, "C18: fourth ETag field is not the modification time (nanoseconds)");
    kani::cover!(true, "ETag compared field by field");
    std::mem::forget(e);
}
