// Kani harnesses for src/body.rs: ExactLenStream accounting (C01, C07, C12, C20) and the
// `Body::from` / `Body::empty` conversions (C12). Injected as `body::verif_h`.
// Uses no `http` API, so it runs against the real or the model dependencies alike.
#![allow(dead_code, unused_imports, static_mut_refs)]

use super::*;
use std::task::Context;

pub enum Chunk {
    Ent { start: u64, len: u64 },
    Lit(Vec<u8>),
    Stat(&'static [u8]),
}
impl Buf for Chunk {
    fn remaining(&self) -> usize {
        match self {
            Chunk::Ent { len, .. } => *len as usize,
            Chunk::Lit(v) => v.len(),
            Chunk::Stat(s) => s.len(),
        }
    }
    fn chunk(&self) -> &[u8] {
        &[]
    }
    fn advance(&mut self, _cnt: usize) {}
}
impl From<Vec<u8>> for Chunk {
    fn from(v: Vec<u8>) -> Self {
        Chunk::Lit(v)
    }
}
impl From<&'static [u8]> for Chunk {
    fn from(v: &'static [u8]) -> Self {
        Chunk::Stat(v)
    }
}
pub struct HErr {
    injected: bool,
}
static mut INJECTED: u32 = 0;
impl From<BoxError> for HErr {
    fn from(b: BoxError) -> Self {
        std::mem::forget(b);
        unsafe {
            INJECTED += 1;
        }
        HErr { injected: true }
    }
}

/// events per script: 4 in the quick tier, 6 in the `*6` harnesses of the thorough tier
pub const KMAX: usize = 6;
static mut K: usize = 4;
#[derive(Clone, Copy)]
pub struct Ev {
    kind: u8, // 0 pending, 1 chunk, 2 err, 3 end
    n: u64,
}
static mut SCRIPT: [Ev; KMAX] = [Ev { kind: 0, n: 0 }; KMAX];

/// Inner stream: replays SCRIPT, then ends. `honour`: delivers exactly `len` bytes in total
/// unless it fails early (Entity::get_range's contract); otherwise arbitrary.
struct Inner {
    i: usize,
    left: u64,
    honour: bool,
    finished: bool,
    polls_after_finish: u32,
}
impl Stream for Inner {
    type Item = Result<Chunk, HErr>;
    fn poll_next(mut self: Pin<&mut Self>, _cx: &mut Context<'_>) -> Poll<Option<Self::Item>> {
        if self.finished {
            // finished or failed streams stay finished
            self.polls_after_finish += 1;
            return Poll::Ready(None);
        }
        if self.honour && self.left == 0 {
            self.finished = true;
            return Poll::Ready(None);
        }
        if self.i < unsafe { K } {
            let ev = unsafe { SCRIPT[self.i] };
            self.i += 1;
            let kind = if self.honour { ev.kind % 3 } else { ev.kind % 4 };
            match kind {
                0 => return Poll::Pending,
                2 => {
                    self.finished = true;
                    return Poll::Ready(Some(Err(HErr { injected: false })));
                }
                3 => {
                    self.finished = true;
                    return Poll::Ready(None);
                }
                _ => {
                    let n = if !self.honour || ev.n <= self.left { ev.n } else { self.left };
                    self.left = self.left.wrapping_sub(n);
                    return Poll::Ready(Some(Ok(Chunk::Ent { start: 0, len: n })));
                }
            }
        }
        if self.honour && self.left > 0 {
            let n = self.left;
            self.left = 0;
            return Poll::Ready(Some(Ok(Chunk::Ent { start: 0, len: n })));
        }
        self.finished = true;
        Poll::Ready(None)
    }
}

fn draw_script() {
    let mut i = 0;
    while i < KMAX {
        if i < unsafe { K } {
            let kind: u8 = kani::any();
            let n: u64 = kani::any();
            kani::assume(kind < 4);
            unsafe {
                SCRIPT[i] = Ev { kind, n };
            }
        }
        i += 1;
    }
}

/// SCENARIO exactlen_*: len:u64 | K x (kind:u8 n:u64)
fn run_exactlen(honour: bool, k: usize) {
    unsafe {
        K = k;
    }
    let len: u64 = kani::any();
    draw_script();
    let inner = Inner { i: 0, left: len, honour, finished: false, polls_after_finish: 0 };
    let s = ExactLenStream::<Chunk, HErr>::new(len, Box::pin(inner));
    let body: Body<Chunk, HErr> = Body(BodyStream::ExactLen(s));
    let mut body = std::pin::pin!(body);
    let mut cx = Context::from_waker(std::task::Waker::noop());

    let mut total: u64 = 0;
    let mut over = false;
    let mut ended = false;
    let mut errored = false;
    let mut said_eos = false;
    let mut first_err_injected = false;
    let mut polls = 0;
    // K scripted events + default tail + end + 3 more polls after the terminal event (C20)
    while polls < KMAX + 5 {
        if polls >= unsafe { K } + 5 {
            break;
        }
        let hint = http_body::Body::size_hint(&*body);
        let eos = http_body::Body::is_end_stream(&*body);
        if !errored {
            // C12: exact hint = announced - delivered
            let owed = len.wrapping_sub(total);
            assert!(hint.lower() == owed && hint.upper() == Some(owed), "C12: ExactLen size hint is not announced minus delivered");
        }
        if eos {
            said_eos = true;
        }
        match http_body::Body::poll_frame(body.as_mut(), &mut cx) {
            Poll::Ready(Some(Ok(f))) => {
                let n = match f.into_data() {
                    Ok(c) => {
                        let n = c.remaining() as u64;
                        std::mem::forget(c);
                        n
                    }
                    Err(_) => 0,
                };
                if n > 0 {
                    assert!(!(ended || errored), "C20: data after the body terminated");
                    if honour {
                        assert!(!said_eos, "C12: data after is_end_stream()");
                    }
                }
                match total.checked_add(n) {
                    Some(t) => total = t,
                    None => over = true,
                }
                assert!(!over && total <= len, "C01/C07: more bytes passed on than announced");
            }
            Poll::Ready(Some(Err(e))) => {
                std::mem::forget(e);
                if honour {
                    assert!(!said_eos, "C12: error after is_end_stream()");
                }
                if !errored {
                    first_err_injected = unsafe { INJECTED } > 0;
                }
                errored = true;
            }
            Poll::Ready(None) => {
                if !errored && !ended {
                    assert!(total == len, "C01/C07: clean end although fewer bytes than announced were delivered");
                }
                ended = true;
            }
            Poll::Pending => {}
        }
        polls += 1;
    }
    if honour {
        // liveness inside the bound and no invented failure
        assert!(ended || errored, "body did not terminate within the poll bound");
        let script_err = unsafe {
            let mut e = false;
            let mut i = 0;
            while i < KMAX {
                if i < K && SCRIPT[i].kind % 3 == 2 {
                    e = true;
                }
                i += 1;
            }
            e
        };
        if !script_err {
            assert!(ended && !errored, "C01: contract-honouring stream but the body reported an error");
        }
    } else {
        // C07: a short stream must surface as an error
        assert!(ended || errored, "body did not terminate within the poll bound");
        // C07: a stream that offers more than announced must surface as an error to a consumer
        // that polls past the announced length (decided from the script, not from what the
        // wrapper chose to poll): the first chunk that makes the cumulative offer exceed `len`,
        // with no end / error event before it
        let mut cum: u128 = 0;
        let mut overlong = false;
        let mut stopped = false;
        let mut i = 0;
        while i < KMAX {
            let ev = unsafe { SCRIPT[i] };
            if i < unsafe { K } && !stopped && !overlong {
                match ev.kind % 4 {
                    1 => {
                        cum += ev.n as u128;
                        if cum > len as u128 {
                            overlong = true;
                        }
                    }
                    2 | 3 => stopped = true,
                    _ => {}
                }
            }
            i += 1;
        }
        if overlong {
            assert!(errored, "C07: the entity stream offers more than announced but the body ended cleanly instead of reporting an error");
        }
    }
    kani::cover!(ended && !errored && total == len && len > 0, "clean end");
    kani::cover!(errored && (honour || first_err_injected), "length mismatch reported");
    kani::cover!(errored && !first_err_injected, "entity error passed through");
}

#[kani::proof]
#[kani::unwind(11)]
fn exactlen_honour() {
    run_exactlen(true, 4)
}

/// thorough tier: 6 scripted events
#[kani::proof]
#[kani::unwind(13)]
fn exactlen_honour6() {
    run_exactlen(true, 6)
}

#[kani::proof]
#[kani::unwind(13)]
fn exactlen_fault6() {
    run_exactlen(false, 6)
}

#[kani::proof]
#[kani::unwind(11)]
fn exactlen_fault() {
    run_exactlen(false, 4)
}

/// Body::from / Body::empty: exact hints and truthful end flag at every step.
/// SCENARIO body_from: which:u8 n:usize
#[kani::proof]
#[kani::unwind(12)]
fn body_from() {
    let which: u8 = kani::any();
    kani::assume(which < 5);
    let n: usize = kani::any();
    kani::assume(n <= 8);
    static TEXT: &str = "abcdefgh";
    let (body, expect): (Body<Chunk, HErr>, u64) = match which {
        0 => (Body::empty(), 0),
        1 => (Body::from(&TEXT.as_bytes()[..n]), n as u64),
        2 => (Body::from(&TEXT[..n]), n as u64),
        3 => {
            let mut v = Vec::with_capacity(8);
            v.extend_from_slice(&TEXT.as_bytes()[..n]);
            (Body::from(v), n as u64)
        }
        _ => {
            let mut v = String::with_capacity(8);
            v.push_str(&TEXT[..n]);
            (Body::from(v), n as u64)
        }
    };
    let mut body = std::pin::pin!(body);
    let mut cx = Context::from_waker(std::task::Waker::noop());
    let mut total = 0u64;
    let mut ended = false;
    let mut said_eos = false;
    let mut k = 0;
    while k < 4 {
        let hint = http_body::Body::size_hint(&*body);
        let eos = http_body::Body::is_end_stream(&*body);
        let owed = expect - total;
        assert!(hint.lower() == owed && hint.upper() == Some(owed), "C12: Body::from size hint not exact");
        if eos {
            said_eos = true;
        }
        match http_body::Body::poll_frame(body.as_mut(), &mut cx) {
            Poll::Ready(Some(Ok(f))) => {
                assert!(!ended, "C20: data after end");
                assert!(!said_eos || expect == 0, "C12: data after is_end_stream()");
                if let Ok(c) = f.into_data() {
                    total += c.remaining() as u64;
                    std::mem::forget(c);
                }
            }
            Poll::Ready(Some(Err(e))) => {
                std::mem::forget(e);
                assert!(false, "fixed body failed");
            }
            Poll::Ready(None) => ended = true,
            Poll::Pending => assert!(false, "fixed body pending"),
        }
        k += 1;
    }
    assert!(ended && total == expect, "C01/C12: fixed body did not deliver its bytes");
    kani::cover!(which == 4 && n == 8, "String body of 8 bytes");
}
