"""Builds and runs the native replayer (/verif/replay) against /repo's current working tree
with the REAL dependencies."""
import json
import os
import shutil
import subprocess
import tempfile

from . import scratch

REPLAY_SRC = os.path.join(scratch.VERIF, "replay")
SEED = os.path.join(scratch.CACHE, "replay-target")


class Replayer:
    def __init__(self, log):
        self.dir = tempfile.mkdtemp(prefix="hs-replay.", dir=scratch.scratch_root())
        self.log = log
        self.bins = {}
        crate = os.path.join(self.dir, "crate")
        os.makedirs(crate)
        for f in ["Cargo.toml", "Cargo.lock"]:
            shutil.copy2(os.path.join(scratch.REPO, f), os.path.join(crate, f))
        for d in ["src", "benches", "examples"]:
            if os.path.isdir(os.path.join(scratch.REPO, d)):
                shutil.copytree(os.path.join(scratch.REPO, d), os.path.join(crate, d))
        shutil.copytree(REPLAY_SRC, os.path.join(self.dir, "replay"), ignore=shutil.ignore_patterns("target"))
        os.makedirs(os.path.join(self.dir, "harness"))
        shutil.copy2(os.path.join(scratch.HARNESS, "oracle.rs"), os.path.join(self.dir, "harness", "oracle.rs"))
        shutil.copy2(os.path.join(scratch.REPO, "Cargo.lock"), os.path.join(self.dir, "replay", "Cargo.lock"))
        self.target = os.path.join(self.dir, "target")
        if os.path.isdir(SEED):
            subprocess.run(["cp", "-a", "--reflink=auto", SEED, self.target])

    def build(self, profile):
        if profile in self.bins:
            return self.bins[profile]
        args = ["cargo", "build", "--offline", "--target-dir", self.target]
        if profile == "release":
            args.append("--release")
        r = subprocess.run(
            args, cwd=os.path.join(self.dir, "replay"), env=scratch.ENV,
            stdout=subprocess.PIPE, stderr=subprocess.STDOUT, text=True,
        )
        self.log.write("$ " + " ".join(args) + "\n" + r.stdout[-4000:] + "\n")
        if r.returncode != 0:
            self.bins[profile] = None
            return None
        b = os.path.join(self.target, profile if profile == "release" else "debug", "hs-replay")
        self.bins[profile] = b
        return b

    def run(self, scenario, profile="debug"):
        """Returns the replayer's JSON output, or {'error': ...}."""
        b = self.build(profile)
        if b is None:
            return {"error": "replayer does not build against this tree (see log)"}
        fd, path = tempfile.mkstemp(prefix="scn.", suffix=".json", dir=self.dir)
        with os.fdopen(fd, "w") as f:
            json.dump(scenario, f)
        try:
            r = subprocess.run([b, path], stdout=subprocess.PIPE, stderr=subprocess.PIPE, text=True, timeout=120)
        except subprocess.TimeoutExpired:
            return {"error": "replayer timed out (hang)", "hang": True}
        if r.returncode != 0:
            return {"error": "replayer exited %d: %s" % (r.returncode, r.stderr[-500:])}
        try:
            return json.loads(r.stdout)
        except Exception as e:
            return {"error": "bad replayer output: %s" % e}

    def cleanup(self):
        shutil.rmtree(self.dir, ignore_errors=True)
