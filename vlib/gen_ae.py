"""Generates harness/ae_gen.rs: Accept-Encoding skeletons for should_gzip (C16).

Skeleton = list of elements `coding [;q=<placeholder>]` with optional whitespace; each weight
placeholder becomes a free value in 0..=1000 (or 'not a qvalue') through a stub of the
crate-private parse_qvalue.  Near-miss / boundary texts go through the real parse_qvalue and
carry an expected value computed here from RFC 7231 5.3.4 (None = not grammatical: no-panic only).
"""
import itertools
import json
import re

PH = ["0.11", "0.22", "0.33"]
CODINGS = ["gzip", "identity", "*", "br"]


def skeletons(tier):
    out = []
    # element forms: (coding, weighted?)
    elems = [(c, w) for c in CODINGS for w in (False, True)]
    ws_variants = [(",", ";"), (", ", ";"), (" , ", " ; "), (",\t", ";\t")] if tier == "thorough" else [(",", ";"), (", ", "; ")]

    def render(es, sep, semi):
        k = 0
        parts, forms = [], []
        for c, w in es:
            if w:
                parts.append(f"{c}{semi}q={PH[k]}")
                forms.append((c, k))
                k += 1
            else:
                parts.append(c)
                forms.append((c, None))
        return sep.join(parts), forms

    for n in (1, 2, 3):
        for es in itertools.product(elems, repeat=n):
            cs = [c for c, _ in es]
            if n == 3:
                # three elements: the three codings that matter in every order, any weights,
                # plus repeated-coding shapes
                if tier == "quick":
                    if sorted(cs) != sorted(["gzip", "identity", "*"]):
                        continue
                    if sum(1 for _, w in es if w) not in (2, 3):
                        continue
                else:
                    if "br" in cs and len(set(cs)) == 3:
                        continue
            if n == 2 and tier == "quick" and cs[0] == cs[1] and cs[0] == "br":
                continue
            for sep, semi in ws_variants if n <= 2 else ws_variants[:1]:
                t, f = render(es, sep, semi)
                if n == 1 and (sep, semi) != ws_variants[0] and not es[0][1]:
                    continue
                out.append((t, f))
    # de-duplicate texts
    seen, res = set(), []
    for t, f in out:
        if t not in seen:
            seen.add(t)
            res.append((t, f))
    return res


def rfc_qvalue(s):
    if re.fullmatch(r"0(\.[0-9]{0,3})?", s):
        frac = s[2:] if len(s) > 2 else ""
        return int((frac + "000")[:3])
    if re.fullmatch(r"1(\.0{0,3})?", s):
        return 1000
    return None


def rfc_should_gzip(text):
    """None = not in the grammar the property quantifies over."""
    if text.strip(" \t") == "":
        return False
    gz = ident = star = None
    for el in text.split(","):
        el = el.strip(" \t")
        if el == "":
            return None
        if ";" in el:
            c, w = el.split(";", 1)
            c = c.strip(" \t")
            w = w.strip(" \t")
            if not w.startswith("q="):
                return None
            q = rfc_qvalue(w[2:])
            if q is None:
                return None
        else:
            c, q = el, 1000
        if not re.fullmatch(r"[A-Za-z0-9!#$%&'*+.^_`|~-]+", c):
            return None
        if c.lower() in ("gzip", "identity") and c not in ("gzip", "identity"):
            return None
        if c == "gzip":
            gz = q
        elif c == "identity":
            ident = q
        elif c == "*":
            star = q
    g = gz if gz is not None else (star if star is not None else 0)
    i = ident if ident is not None else (star if star is not None else 1)
    return g > 0 and g >= i


def lex_cases():
    texts = [
        "", " ", ",", "gzip", "identity", "*", "br", "deflate, br", "x-gzip", "gzip;q=0", "gzip;q=0.", "gzip;q=0.0",
        "gzip;q=0.000", "gzip;q=0.001", "gzip;q=0.5", "gzip;q=0.999", "gzip;q=1", "gzip;q=1.", "gzip;q=1.000",
        "gzip;q=1.001", "gzip;q=2", "gzip;q=0.0000", "gzip;q=", "gzip;q", "gzip;", "gzip;q=0.5;x=1", "gzip;x=1",
        "gzip;q=-1", "gzip;q=+1", "gzip;q=0.+5", "gzip;q=.5", "gzip;q=00.5", "gzip; q=0.5", "gzip ;q=0.5",
        "gzip ; q=0.5", "gzip;q=0.5 ", " gzip", "gzip ", "gzip,", ",gzip", "gzip,,identity",
        "identity;q=0", "*;q=0", "identity;q=0, *", "gzip;q=0, *", "identity;q=0.5, gzip;q=1.0",
        "identity;q=1.0, gzip;q=0.5", "identity;q=0.5, gzip;q=0.5", "gzip;q=0.5, identity;q=0.5",
        "*;q=0.5, identity;q=0.6", "*;q=0.5, gzip;q=0.4", "*;q=0.5, identity;q=0.4", "gzip;q=0.001, identity;q=0",
        "gzip;q=0.001, *;q=0", "gzip, identity;q=0.5, *;q=0", "br;q=1, gzip;q=0.8, *;q=0.1",
        "gzip;q=0.3, gzip;q=0", "gzip;q=0, gzip;q=0.3", "identity;q=1, identity;q=0, gzip;q=0.5",
        "GZIP", "gzip;Q=0.5", "x-gzip, deflate", "compress, gzip", "gzip\t,\tidentity;q=0.1",
        "g\xe9zip", "gzip;q=0.5\x7f",
    ]
    out = []
    for t in texts:
        b = t.encode("latin-1")
        if any((c < 0x20 and c != 9) or c == 0x7F for c in b):
            continue
        exp = rfc_should_gzip(t) if all(c < 0x7F for c in b) else None
        out.append((b, exp))
    return out


def rust_bytes(b):
    s = "".join(chr(x) if 0x20 <= x < 0x7F and chr(x) not in '"\\' else "\\x%02x" % x for x in b)
    return 'b"' + s + '"'


def rust_str(t):
    return '"' + t.replace("\t", "\\t") + '"'


def generate(tier, out_rs, out_meta, group=6, lex_group=1):
    sks = skeletons(tier)
    lex = lex_cases()
    meta = {"sk": {}, "lex": {}, "placeholders": PH}
    L = ["// GENERATED by vlib/gen_ae.py on every run -- do not edit.",
         "// SCENARIO ae_sk_*: sk:u16 (w:u16 ok:bool)x3", "// SCENARIO ae_lex_*: sk:u16",
         "#![allow(unused_imports)]", "use super::*;", "use super::oracle::Coding;"]
    cmap = {"gzip": "Coding::Gzip", "identity": "Coding::Identity", "*": "Coding::Star", "br": "Coding::Other"}
    maxlen = max(len(t) for t, _ in sks)
    sks = sorted(sks, key=lambda x: len(x[0]))
    groups = [sks[i:i + group] for i in range(0, len(sks), group)]
    for gi, g in enumerate(groups):
        name = f"ae_sk_g{gi:02d}"
        meta["sk"][name] = [{"text": t, "forms": f} for t, f in g]
        gmax = max(len(t) for t, _ in g)
        L += ["#[kani::proof]", f"#[kani::unwind({max(gmax + 3, 12)})]",
              "#[kani::stub(crate::parse_qvalue, stub_qvalue)]",
              "#[kani::stub(core::slice::memchr::memchr, naive_memchr)]",
              f"fn {name}() {{", "    let sc = draw_ae();", "    match sc.sk {"]
        for i, (t, f) in enumerate(g):
            forms = ", ".join("(%s, %s)" % (cmap[c], "None" if k is None else f"Some({k})") for c, k in f)
            L.append(f"        {i} => check_ae(&sc, {rust_str(t)}, &[{forms}]),")
        L += ["        _ => kani::assume(false),", "    }", "}"]
    lex = sorted(lex, key=lambda x: len(x[0]))
    lgroups = [lex[i:i + lex_group] for i in range(0, len(lex), lex_group)]
    lmax = max(len(t) for t, _ in lex)
    for gi, g in enumerate(lgroups):
        name = f"ae_lex_g{gi:02d}"
        meta["lex"][name] = [{"bytes": list(t), "expected": e} for t, e in g]
        gmax = max(len(t) for t, _ in g)
        L += ["#[kani::proof]", f"#[kani::unwind({max(gmax + 3, 12)})]",
              "#[kani::stub(core::slice::memchr::memchr, naive_memchr)]",
              f"fn {name}() {{", "    let sk: u16 = kani::any();", "    match sk {"]
        for i, (t, e) in enumerate(g):
            ex = "None" if e is None else ("Some(true)" if e else "Some(false)")
            # (the text is a prefix of a longer static: a zero-length slice at the very end of an
            # object -- the trailing empty element of "gzip," -- makes pointer comparisons symbolic
            # for CBMC and the split loop explodes)
            L.append(f"        {i} => check_ae_lex(&{rust_bytes(t + bytes([0, 0]))}[..{len(t)}], {ex}),")
        L += ["        _ => kani::assume(false),", "    }", "}"]
    open(out_rs, "w").write("\n".join(L) + "\n")
    json.dump(meta, open(out_meta, "w"))
    return meta


if __name__ == "__main__":
    import sys
    m = generate(sys.argv[1], sys.argv[2], sys.argv[3])
    print(len(m["sk"]), "skeleton groups", sum(len(v) for v in m["sk"].values()), "skeletons;", len(m["lex"]), "lex groups")
