"""Property registry: which harnesses decide which property, with which bounds."""
import json
import os

from . import decode, gen_ae, gen_chunker, gen_mp, gen_precond, gen_range, gen_serve

# ---------------------------------------------------------------------------------------
# units


def _range_gen(hdir, tier):
    gen_range.generate(tier, os.path.join(hdir, "range_gen.rs"), os.path.join(hdir, "range_meta.json"))


def _range_meta(hdir):
    return json.load(open(os.path.join(hdir, "range_meta.json")))


def _range_harnesses(tier, meta):
    hs = ["range::verif_h::range_absent"]
    hs += ["range::verif_h::gen::" + n for n in sorted(meta["arith"])]
    hs += ["range::verif_h::gen::" + n for n in sorted(meta["lex"])]
    return hs


def _range_decode(short, vals, meta):
    if short.startswith("range_arith_"):
        return decode.decode_range_arith(short, vals, meta)
    if short.startswith("range_lex_"):
        return decode.decode_range_lex(short, vals, meta)
    return None


def unit_range():
    return {
        "name": "range",
        "config": "shim",
        "inject": {"range.rs": "range_h.rs"},
        "gen_fn": _range_gen,
        "load_meta": _range_meta,
        "harnesses": _range_harnesses,
        "decode": _range_decode,
        "panic_tags": ["C13", "C03"],
        "weight": 1,
        "timeout": {"quick": 900, "thorough": 3000},
    }


def _serve_gen(hdir, tier):
    gen_serve.generate(tier, os.path.join(hdir, "serve_gen.rs"), os.path.join(hdir, "serve_meta.json"))
    gen_precond.generate(tier, os.path.join(hdir, "precond_gen.rs"), os.path.join(hdir, "precond_meta.json"))
    gen_mp.generate(tier, os.path.join(hdir, "mp_gen.rs"), os.path.join(hdir, "mp_meta.json"))


def _serve_meta(hdir):
    return {
        "serve": json.load(open(os.path.join(hdir, "serve_meta.json"))),
        "precond": json.load(open(os.path.join(hdir, "precond_meta.json"))),
        "mp": json.load(open(os.path.join(hdir, "mp_meta.json"))),
    }


def _serve_decode(short, vals, meta):
    if short in meta["serve"]:
        return decode.decode_serve_cfg(meta["serve"][short], vals)
    if short in meta["precond"]:
        return decode.decode_precond(meta["precond"][short], vals)
    if short in meta["mp"]:
        return decode.decode_mp(meta["mp"][short], vals)
    if short.startswith("prep_unit_"):
        return decode.decode_prep(short, vals)
    return None


KANI_LIGHT = ["--no-memory-safety-checks", "--no-assertion-reach-checks", "-Z", "unstable-options"]


# (instances with entity headers in the parts -- prep_unit_n2_h1/h2, n3_h1 -- exhaust 24 GB and are not registered)
PREP_UNITS = {"quick": ["prep_unit_n2_noincl_req", "prep_unit_n2_noincl_any"],
              "thorough": ["prep_unit_n2_noincl_req", "prep_unit_n2_noincl_any", "prep_unit_n2_h0_req", "prep_unit_n2_h0_any", "prep_unit_n3_noincl_req", "prep_unit_n3_noincl_any"]}


def _c05_key(c):
    """quick tier of C05: one GET instance per If-Range situation."""
    if c["method"] != "GET" or c["focus"] == 2:
        return "skip"
    if c["group"] == "single":
        if c["ir"] == "same":
            return ("single-same", c["etag"]) if c["etag"] in ("strong", "weak") else "skip"
        return ("single", c["ir"])
    if c["group"] == "multi" and c["ir"] == "same":
        return "multi-same"
    return "skip"


def _serve_weight(h):
    """206 / multipart instances (Range honoured) peak at 20-30 GB: at most two at a time."""
    # units of ~4 GB on a 16-core / 62 GB box (capacity 16): one-poll multipart steps and
    # precondition groups are small, the real prepare_multipart ~4 GB, a 200-path serve instance
    # 6-10 GB, a 206 / multipart instance 15-27 GB
    if "::mpgen::" in h:
        return 0.5
    if "::pgen::" in h:
        return 1
    n = h.split("::")[-1]
    if n.startswith("prep_unit_"):
        return 1.5
    honoured = "_absent" in n or ("_same" in n and ("_estrong_" in n or "_ecomma_" in n))
    if n.startswith("serve_multi_") and honoured and not n.endswith(("_req", "_rev", "_forb", "_mid")):
        return 7  # all-symbolic multi-range instance (thorough tier): up to 27 GB
    if (n.startswith("serve_single_") and honoured) or (n.startswith("serve_multi_") and honoured):
        return 5
    return 2


def unit_serve(select, panic_tags=("C13",), precond=False, mp=None, prep=False, qkey=None, qcap=1, quick=None):
    """select(cfg) -> bool picks generated serve_cfg instances; precond adds the precond_gNN groups;
    mp(cfg) -> bool picks one-poll instances of the MultipartStream state machine.
    qkey: in the quick tier at most `qcap` instances per value of qkey(cfg) are kept (serve-level
    instances cost 1-8 minutes and 5-25 GB each); the thorough tier runs all of them."""

    def harnesses(tier, meta):
        names = [n for n, c in sorted(meta["serve"].items()) if select and select(c)]
        if tier == "quick" and quick is not None:
            # the per-change budget (a check is stopped after 900 s): an explicit list with at
            # most two of the 350-700 s instances (206 / multipart), which run concurrently
            missing = [n for n in quick if n not in meta["serve"]]
            if missing:
                raise RuntimeError("quick list names unknown serve instances: %s" % missing)
            names = list(quick)
        elif tier == "quick" and qkey:
            seen = {}
            kept = []
            for n in names:
                k = qkey(meta["serve"][n])
                if k != "skip" and seen.get(k, 0) < qcap:
                    seen[k] = seen.get(k, 0) + 1
                    kept.append(n)
            names = kept
        hs = ["serving::verif_h::gen::" + n for n in names]
        if precond:
            hs += ["serving::verif_h::pgen::" + n for n in sorted(meta["precond"])]
        if mp:
            hs += ["serving::verif_h::mpgen::" + n for n, c in sorted(meta["mp"].items()) if mp(c)]
        if prep:
            hs += ["serving::verif_h::" + n for n in PREP_UNITS[tier]]
        return hs

    return {
        "name": "serve",
        "config": "shim",
        "inject": {"serving.rs": "serving_h.rs"},
        "gen_fn": _serve_gen,
        "load_meta": _serve_meta,
        "harnesses": harnesses,
        "decode": _serve_decode,
        "panic_tags": list(panic_tags),
        "extra": KANI_LIGHT,
        "weight": 4,
        # the one-poll multipart instances and the precondition groups are small problems
        # 206 / multi-range instances peak at 20-30 GB: at most two of them at a time
        "weight_of": _serve_weight,
        "mem_kb": 40_000_000,
        "timeout": {"quick": 1500, "thorough": 3600},
    }


MODEL_ASSUMPTIONS = [
    "model crates replace http, bytes, httpdate, memchr, tokio, flate2 and smallvec (/verif/shims; same contracts, "
    "simple data structures); std::sync::{Arc,Mutex}, VecDeque and std::io in chunker.rs/gzip.rs are redirected to "
    "harness/verif_std.rs; every function body of /repo/src is compiled unchanged",
    "core::slice::memchr::memchr is stubbed by a naive loop with the same contract",
    "results are for the instantiation Data = Chunk (denotes entity byte positions), Error = HErr",
    "every solver counterexample is replayed against the real build with the real dependencies before it is reported",
]

MP_NOTE = 'multipart bodies are decomposed (DESIGN.md section 5b): serve() hands over the initial state of the MultipartStream state machine (checked in the serve_multi_* instances, with prepare_multipart replaced by a recording stand-in), the real prepare_multipart is verified alone (prep_unit_*: announced length = sum of part headers + part lengths + closing delimiter in 128 bits, part header text), and ONE poll of MultipartStream from every state satisfying its invariant is verified in mp_step_* (frame kind/order/position, remaining reduced by the frame length, Pending keeps the open stream, error fuses, end absorbing, exact hint); single-range 206 bodies are checked before the first poll (built over exactly a..b, exact hint), their delivery is the exactlen_* stream-level harness'

# Serve-level instances of the quick tier, per property (see unit_serve: `quick`).
QUICK_SERVE = {'C01': ['serve_full_get_enone_m0_h0_absent_hd',
         'serve_full_get_estrong_m1_h2_absent_bd',
                  'serve_single_get_enone_m0_h0_absent',
         'serve_multi_get_estrong_m0_h0_absent_r2_rev'],
 'C02': ['serve_single_get_enone_m0_h0_absent',
         'serve_single_get_estrong_m1_h2_same',
         'serve_full_get_ecomma_m0_h3_absent_hd',
         'serve_full_get_enone_m0_h0_absent_bd'],
 'C03': ['serve_unsat_get_enone_m0_h0_absent', 'serve_single_get_enone_m0_h0_absent', 'serve_multi_get_estrong_m0_h0_absent_r2_rev'],
 'C05': ['serve_single_get_ecomma_m0_h1_same',
         'serve_multi_get_estrong_m1_h2_same_r2_req',
         'serve_single_get_eweak_m1_h1_same_hd',
         'serve_single_get_estrong_m1_h1_other_hd',
         'serve_single_get_estrong_m1_h1_weak_hd',
         'serve_single_get_estrong_m1_h1_date_hd'],
 'C06': ['serve_multi_get_estrong_m0_h0_absent_r2_rev', 'serve_multi_head_estrong_m0_h0_absent_r2_req', 'serve_multi_get_estrong_m0_h1_other_r2_hd'],
 'C12': ['serve_full_get_enone_m0_h0_absent_bd', 'serve_full_get_eweak_m1_h1_absent_hd', 'serve_multi_get_estrong_m0_h0_absent_r2_req'],
 'C13': ['serve_m405_post_estrong_m1_h1_absent', 'serve_m405_ext_estrong_m1_h1_absent', 'serve_unsat_get_enone_m0_h0_absent'],
 'C14': ['serve_full_get_ecomma_m0_h3_absent_hd',
         'serve_full_get_estrong_m1_h2_absent_hd',
         'serve_full_head_eweak_m1_h1_absent',
         'serve_unsat_get_estrong_m1_h2_absent',
         'serve_single_get_estrong_m1_h2_absent',
         'serve_single_head_eweak_m1_h1_absent'],
 'C15': ['serve_full_head_estrong_m1_h2_absent',
         'serve_unsat_head_enone_m0_h0_absent',
         'serve_single_head_enone_m0_h0_absent',
         'serve_multi_head_estrong_m1_h1_absent_r2_rev',
         'serve_single_head_estrong_m1_h1_other',
         'serve_multi_head_estrong_m0_h1_other_r2_req']}

PROPS = {}
NOT_APPLICABLE = {
    "C09": "needs symbolic execution of deflate + CRC-32 + an inflater (input-length dependent loops over hash tables): out of reach for a bounded model checker here; the chunk writer underneath is covered by C08/C11, the choice of coding by C17 (flate2 is a marker model)",
}


def _simple_unit(name, inject, harnesses, decode_fn=None, gen_fn=None, load_meta=None, features=(), panic_tags=("C13",), extra=None, timeout=None):
    return {
        "name": name,
        "config": "shim",
        "inject": inject,
        "gen_fn": gen_fn,
        "load_meta": load_meta,
        "features": list(features),
        "harnesses": harnesses,
        "decode": decode_fn or (lambda short, vals, meta: None),
        "panic_tags": list(panic_tags),
        "extra": extra if extra is not None else KANI_LIGHT,
        "timeout": timeout or {"quick": 1500, "thorough": 3600},
        "weight": 1,
    }


def unit_body(names, panic_tags=("C13",)):
    def hs(tier, meta):
        out = ["body::verif_h::" + n for n in names]
        if tier != "quick":
            # thorough: the same stream-level harnesses with 6 instead of 4 scripted events
            out += ["body::verif_h::" + n + "6" for n in names if n.startswith("exactlen_")]
        return out
    return _simple_unit("body", {"body.rs": "body_h.rs"}, hs,
                        decode_fn=decode.decode_body, panic_tags=panic_tags)


def unit_etag(names):
    return _simple_unit("etag", {"etag.rs": "etag_h.rs"}, lambda tier, meta: ["etag::verif_h::" + n for n in names],
                        decode_fn=decode.decode_etag, panic_tags=("C13", "C04"))


def _ae_gen(hdir, tier):
    gen_ae.generate(tier, os.path.join(hdir, "ae_gen.rs"), os.path.join(hdir, "ae_meta.json"))


def unit_lib():
    def hs(tier, meta):
        return ["verif_h::qvalue_sym", "verif_h::ae_absent"] + ["verif_h::gen::" + n for n in sorted(meta["sk"])] + ["verif_h::gen::" + n for n in sorted(meta["lex"])]
    return _simple_unit("lib", {"lib.rs": "lib_h.rs"}, hs, decode_fn=decode.decode_ae, gen_fn=_ae_gen,
                        load_meta=lambda hdir: json.load(open(os.path.join(hdir, "ae_meta.json"))), panic_tags=("C13", "C16"))


def unit_gzip(names, panic_tags=("C13",)):
    u = _unit_gzip(names, panic_tags)
    u["weight"] = 2.5  # sb_dead_after_abort_gz peaks near 10 GB
    return u


def _unit_gzip(names, panic_tags=("C13",)):
    return _simple_unit("gzip", {"gzip.rs": "gzip_h.rs"}, lambda tier, meta: ["gzip::verif_h::" + n for n in names],
                        decode_fn=decode.decode_gzip, panic_tags=panic_tags)


def _chunker_gen(hdir, tier):
    gen_chunker.generate(tier, os.path.join(hdir, "chunker_gen.rs"), os.path.join(hdir, "chunker_meta.json"))


def unit_chunker(select, panic_tags=("C13",)):
    """select(meta entry) -> bool picks generated inductive-step instances (prod_* / cons_* / rdrop_*)."""
    def hs(tier, meta):
        return ["chunker::verif_h::gen::" + n for n, m in sorted(meta.items()) if select(m)]
    u = _simple_unit("chunker", {"chunker.rs": "chunker_h.rs"}, hs, decode_fn=decode.decode_chunker, gen_fn=_chunker_gen,
                     load_meta=lambda hdir: json.load(open(os.path.join(hdir, "chunker_meta.json"))), panic_tags=panic_tags)
    u["weight"] = 0.8
    return u


def ch_kinds(m):
    return "".join(k for k, _ in m.get("ops", []))


def ch_c08(m):
    if m["family"] == "prod":
        return m["pre"]["state"] == "ok" and "X" not in ch_kinds(m)
    return m["family"] == "cons" and m["pre"]["state"] == "ok"


def ch_c10(m):
    if m["family"] == "prod":
        return m["pre"]["state"] == "ok" and (m["pre"]["waker"] or "D" in ch_kinds(m) or "X" in ch_kinds(m))
    return m["family"] == "cons" and m["pre"]["state"] == "ok"


def ch_c11(m):
    if m["family"] == "prod":
        return m["pre"]["state"] != "ok" or "X" in ch_kinds(m)
    if m["family"] == "cons":
        return m["pre"]["state"] == "err"
    return True


def ch_c12(m):
    if m["family"] == "prod":
        return m["pre"]["state"] == "ok" and m["pre"]["nq"] >= 1 and "X" not in ch_kinds(m)
    return m["family"] == "cons"


def ch_c20(m):
    return m["family"] == "cons" and (m["pre"]["state"] != "ok" or m["pre"]["wd"])


def unit_file():
    return _simple_unit("file", {"file.rs": "file_h.rs"}, lambda tier, meta: ["file::verif_h::" + n for n in ("file_range_step", "file_range_step_small", "file_etag_syntax")],
                        decode_fn=decode.decode_file, panic_tags=("C13", "C18"))


def unit_dir():
    return _simple_unit("dir", {"dir.rs": "dir_h.rs"}, lambda tier, meta: ["dir::verif_h::validate_path_sym", "dir::verif_h::validate_path_sym10", "dir::verif_h::node_encoding"] + (["dir::verif_h::validate_path_sym13", "dir::verif_h::validate_path_sym16"] if tier != "quick" else []),
                        decode_fn=decode.decode_dir, features=("dir",), panic_tags=("C13", "C19"))


SB_BUILD = ["sb_build_absent", "sb_build_gzip", "sb_build_identity", "sb_build_gzip_q0", "sb_build_star",
            "sb_build_pref_gzip", "sb_build_pref_identity", "sb_build_others", "sb_build_empty"]

LEVEL = ("Bounded model checking of the real code: the compiled functions are executed symbolically (Kani/CBMC, SAT) "
         "with the inputs the property quantifies over left symbolic inside the stated bounds; the verdict covers every "
         "value inside the bounds and nothing outside. Counterexamples are replayed against the real build first.")


def g(*groups, methods=("GET", "HEAD"), ir=None):
    def sel(c):
        return c["group"] in groups and c["method"] in methods and (ir is None or c["ir"] in ir)
    return sel


def quick_cap(sel, n):
    """In the quick tier keep the first n matching instances (sorted by name)."""
    return sel, n


PROPS["C01"] = {
    "units": lambda tier, seed: [
        unit_serve(quick=QUICK_SERVE['C01'], select=g("full", "single", "multi", "unsat", "m405", methods=("GET", "POST", "EXT"), ir=("absent",)), mp=lambda c: True, prep=True,
                   qkey=lambda c: (c["group"], c["method"], c["focus"])),
        unit_body(["exactlen_honour"]),
    ],
    "explanation": "serve() is executed for every structural request/entity configuration generated by vlib/gen_serve.py "
    "(method x ETag kind x modification time x entity headers x If-Range variant x what the range resolver answers) with "
    "entity length, range positions, clock and the entity's chunking symbolic; Content-Length (parsed back) is compared "
    "with the body's exact size hint and the range length; the length-checking stream is executed against every "
    "contract-honouring inner stream of <= 4 events + tail (Sigma delivered <= announced at every step, = on clean end). " + MP_NOTE + ".",
    "functions": ["serving::serve", "serving::serve_inner", "serving::prepare_multipart", "serving::MultipartStream::poll_next", "body::ExactLenStream::poll_next", "body::Body::size_hint", "body::Body::poll_frame"],
    "bounds": {"ranges": "0, 1 or 2 satisfiable ranges (3 in the thorough tier)", "numbers": "all u64 consistent with the resolver's contract", "entity stream": "2 scripted events (Pending / chunk of any length / error) per get_range call, then the remainder in one chunk", "polls": "2 per complete-200 body inside serve(), 9 in the stream-level harness; multipart: one poll from an arbitrary invariant state (induction over polls)",
               "quick tier": "one serve-level instance per response class (the thorough tier runs every generated configuration)"},
    "outside": ["more than 3 ranges", "longer chunk scripts", "decimal rendering of numbers is std's (numeral model, see assumptions)"],
    "assumptions": MODEL_ASSUMPTIONS,
}
PROPS["C02"] = dict(PROPS["C01"], units=lambda tier, seed: [
    unit_serve(quick=QUICK_SERVE['C02'], select=g("full", "single", methods=("GET",)), qkey=lambda c: (c["group"], c["focus"], c["ir"] if c["ir"] in ("absent", "same") else "x")),
    unit_body(["exactlen_honour"]),
])
PROPS["C02"]["explanation"] = ("Same executions as C01 for complete and single-range GET responses: the harness entity's chunks "
    "denote entity byte positions. Complete 200 bodies are drained and compared position by position (contiguity frame by frame). "
    "A single-range 206 is checked before the first poll: Content-Range (parsed back) names a-b/L, Content-Length = b-a+1, and the body is the "
    "length-checking stream built over exactly Entity::get_range(a..b+1) with an exact size hint of that length; what that stream then "
    "delivers for ANY contract-honouring entity stream is the stream-level harness exactlen_honour (draining a 206 inside serve() exhausts 24 GB).")

PROPS["C03"] = {
    "units": lambda tier, seed: [
        unit_range(),
        unit_serve(quick=QUICK_SERVE['C03'], select=g("unsat", "single", "multi", ir=("absent",)), panic_tags=("C13", "C03"), qkey=lambda c: c["group"] if c["method"] == "GET" else "skip"),
    ],
    "explanation": "range::parse is executed symbolically on generated skeleton texts (1..3 specs, each of the three "
    "forms, optional whitespace after commas) whose numbers are free 64-bit values (integer parser stubbed) "
    "and compared with an independent RFC 7233 resolution for every entity length; near-miss texts go "
    "through the real integer parser; serve() is executed with the resolver's answer symbolic (0, 1 or 2 ranges) and its "
    "status, Content-Range, Content-Length, multipart-vs-200 decision and body are compared with the same model. The stub "
    "records that serve() hands the Range header and the entity length to the resolver, which composes the two halves.",
    "functions": ["range::parse", "serving::serve", "serving::serve_inner", "serving::prepare_multipart"],
    "bounds": {
        "quick": {"specs": "1..3 (27 skeletons: all 1- and 2-spec shapes with ',' and ', '; 3 three-spec shapes)", "numbers": "all u64 + 'does not fit'", "entity length": "all u64", "near-miss texts": 47},
        "thorough": {"specs": "1..3 (all shapes, six whitespace variants)", "numbers": "all u64 + 'does not fit'", "entity length": "all u64", "near-miss texts": 47},
    },
    "outside": ["more than 3 specs", "whitespace before commas / around the first spec", "header text that is not one of the generated shapes (fully symbolic text is out of reach)"],
    "assumptions": MODEL_ASSUMPTIONS + ["the integer parser stub returns an arbitrary u64 or a parse error for each placeholder token, and parses any other text like the real parser"],
    "samples": lambda units: [a["text"] for u in units if u.get("meta") and "arith" in u["meta"] for gname in sorted(u["meta"]["arith"]) for a in u["meta"]["arith"][gname]],
}

PROPS["C04"] = {
    "units": lambda tier, seed: [
        unit_serve(lambda c: False, panic_tags=("C13", "C04"), precond=True),
        unit_etag(["etag_eq_sym", "etag_list_sym", "etag_match_im", "etag_match_inm", "etag_match_im_noetag", "etag_match_inm_noetag"]),
    ],
    "explanation": "parse_modified_hdrs is executed for every structural combination generated by vlib/gen_precond.py (entity ETag "
    "kind x If-Match / If-None-Match text from a list of 10 (14) tag-list shapes incl. `*`, weak tags, tags containing ', ' x "
    "presence of each date header) with the modification time (seconds AND nanoseconds) and both dates symbolic, and compared "
    "with an RFC 7232 section 6 model; the comparison functions and the tag-list iterator are executed on fully symbolic bytes.",
    "functions": ["serving::parse_modified_hdrs", "etag::any_match", "etag::none_match", "etag::List::next", "etag::weak_eq", "etag::strong_eq"],
    "bounds": {"tag lists": "generated shapes of 1..2 tags (1..4 thorough); symbolic lists up to 9 bytes / 4 tags", "dates": "all whole seconds up to year 9999", "mtime": "all (secs, nanos) up to year 9999"},
    "outside": ["malformed validators (only 'well-formed' is in the property)", "the mapping of the two decisions to 412/304 inside serve() is covered by C14's harnesses"],
    "assumptions": MODEL_ASSUMPTIONS + ["httpdate model: parse(fmt(t)) = t truncated to the second; every parsed date is a whole second"],
}

PROPS["C05"] = {
    "units": lambda tier, seed: [
        unit_serve(quick=QUICK_SERVE['C05'], select=g("single", "multi", "unsat", ir=("same", "other", "weak", "date")), panic_tags=("C13",),
                   qkey=_c05_key, qcap=1),
        unit_etag(["etag_eq_sym"]),
    ],
    "explanation": "serve() with Range + If-Range in {entity's own tag (strong / weak / none), another tag, weak variant, the served "
    "Last-Modified date}: the range resolver stub records whether serve() handed it the Range header; asserted: only for a "
    "byte-identical strong tag; otherwise complete 200 without Content-Range; 206 under If-Range carries no entity headers. "
    "strong_eq is executed on symbolic bytes (byte identity and not weak).",
    "functions": ["serving::serve_inner (If-Range gate)", "etag::strong_eq"],
    "bounds": {"If-Range": "5 variants x ETag kinds", "ranges": "1 or 2"},
    "outside": ["If-Range values other than the generated variants"],
    "assumptions": MODEL_ASSUMPTIONS,
}

PROPS["C06"] = {
    "units": lambda tier, seed: [unit_serve(quick=QUICK_SERVE['C06'], select=g("multi"), mp=lambda c: True, prep=True, qkey=lambda c: (c["method"], c["ir"] == "other"))],
    "explanation": "serve() with two (thorough: three) symbolic satisfiable ranges (overlapping, adjacent, duplicated, out of order all "
    "allowed), entity headers 0..2, with/without matching If-Range: Content-Type, absence of top-level Content-Range, ranges handed on in request order, "
    "entity headers in the parts exactly without If-Range; " + MP_NOTE + "; 413 only if the length cannot be expressed (prep_unit_*).",
    "functions": ["serving::prepare_multipart", "serving::MultipartStream::poll_next", "serving::serve"],
    "bounds": {"parts": "2 and 3; the property's 2..8 is cut there", "positions": "all u64", "entity headers": "0, 1 or 2 fixed headers", "polls": "one poll from an arbitrary invariant state (induction over polls)"},
    "outside": ["more than 3 parts", "decimal widths (numeral model; decimal rendering is std's)"],
    "assumptions": MODEL_ASSUMPTIONS,
}

PROPS["C07"] = {
    "units": lambda tier, seed: [unit_body(["exactlen_fault"], panic_tags=("C13", "C20"))],
    "explanation": "The length-checking stream every serve() body is wrapped in is executed against an ARBITRARY inner stream of 4 "
    "events (Pending / chunk of any u64 length / error / early end, then end): a clean end implies exactly the announced "
    "bytes, never more is passed on, an over-long chunk yields an error, polling past the end never yields data.",
    "functions": ["body::ExactLenStream::poll_next", "body::Body::poll_frame", "body::Body::size_hint"],
    "bounds": {"events": 4, "polls": 9},
    "outside": ["faults inside multipart parts (each part is wrapped in the same stream; the multipart state machine under faults is C20's multipart harness)", "more than 4 events"],
    "assumptions": MODEL_ASSUMPTIONS,
}

PROPS["C08"] = {
    "units": lambda tier, seed: [unit_chunker(ch_c08)],
    "explanation": 'inductive steps over src/chunker.rs (DESIGN.md section 5): from an ARBITRARY shared state satisfying the invariant INV (ready_bytes = sum of queued chunk lengths, chunks non-empty, a waker is registered only on an empty live queue; writer buffer below the chunk size), checked again at every release of the model mutex, one producer operation leaves the queued chunks untouched and `new chunks ++ buffer = old buffer ++ accepted bytes` byte by byte, write accepts 1..n bytes on a live body and never fails, flush leaves nothing in the buffer and never fails on a live body, drop hands over the rest and marks the end; one poll delivers exactly the head of the queue, unchanged and non-empty, and ends cleanly only when the queue is empty and the writer gone. By induction: frames = accepted bytes, once, in order.',
    "functions": ['chunker::Writer::write', 'chunker::Writer::flush', 'chunker::Writer::flush_helper', 'chunker::Writer::drop', 'chunker::Reader::poll_next', 'body::Body::poll_frame'],
    "bounds": {'pre-state': '0..2 queued chunks of symbolic length 1..chunk size, chunk size 1..3, every buffer fill below the chunk size, writer alive/dropped, waker registered or not, Ok / Err / consumer-gone', 'step': 'one producer operation (write of 0..4 bytes, flush, abort, drop; four two-operation instances) or one poll (thorough: two) with arbitrary wakers', 'bytes': 'all byte values symbolic'},
    "outside": ['interleavings inside std::sync::Mutex and weak-memory effects (the mutex is trusted to be a mutex; induction is over critical sections)', 'chunk sizes > 3 and queues longer than 4 (sizes only enter comparisons)', "write_all (std's retry loop over write)", 'the gzip arm (flate2 is a marker model)'],
    "assumptions": MODEL_ASSUMPTIONS,
}
PROPS["C10"] = {
    "units": lambda tier, seed: [unit_chunker(ch_c10)],
    "explanation": "inductive steps over src/chunker.rs (DESIGN.md section 5): from an ARBITRARY shared state satisfying the invariant INV (ready_bytes = sum of queued chunk lengths, chunks non-empty, a waker is registered only on an empty live queue; writer buffer below the chunk size), checked again at every release of the model mutex, every producer operation that publishes a chunk, the end or an error takes the registered waker in the same critical section and wakes it; a poll returns Pending only on an empty live queue and then the waker of the LATEST poll is the one registered (fresh waker per poll); a state with the writer gone or an error pending yields its terminal event on the next poll. The window between the producer's unlock and its wake() is an INV state handled by the consumer step. By induction: no lost wake-up at lock granularity, for histories of any length.",
    "functions": ['chunker::Writer::flush_helper', 'chunker::Writer::abort', 'chunker::Writer::drop', 'chunker::Reader::poll_next'],
    "bounds": {'pre-state': '0..2 queued chunks of symbolic length 1..chunk size, chunk size 1..3, every buffer fill below the chunk size, writer alive/dropped, waker registered or not, Ok / Err / consumer-gone', 'step': 'one producer operation (write of 0..4 bytes, flush, abort, drop; four two-operation instances) or one poll (thorough: two) with arbitrary wakers', 'bytes': 'all byte values symbolic'},
    "outside": ['interleavings inside std::sync::Mutex and weak-memory effects (the mutex is trusted to be a mutex; induction is over critical sections)', 'chunk sizes > 3 and queues longer than 4 (sizes only enter comparisons)', "write_all (std's retry loop over write)", 'the gzip arm (flate2 is a marker model)'],
    "assumptions": MODEL_ASSUMPTIONS,
}
PROPS["C11"] = {
    "units": lambda tier, seed: [
        unit_chunker(ch_c11),
        unit_gzip(["sb_dead_after_abort_raw", "sb_dead_after_abort_gz"]),
    ],
    "explanation": 'inductive steps over src/chunker.rs (DESIGN.md section 5): from an ARBITRARY shared state satisfying the invariant INV (ready_bytes = sum of queued chunk lengths, chunks non-empty, a waker is registered only on an empty live queue; writer buffer below the chunk size), checked again at every release of the model mutex, abort leaves the error state and wakes the consumer; from the error state the next poll is the error (never a clean end, never after is_end_stream()), then the body is fused; dropping the body leaves a non-Ok state, from which flush of buffered data and every chunk-completing write fail; BodyWriter refuses every write/flush after abort (raw and gzip arm).',
    "functions": ['chunker::Writer::abort', 'chunker::Reader::drop', 'chunker::Writer::flush_helper', 'gzip::BodyWriter::abort', 'gzip::BodyWriter::write', 'gzip::BodyWriter::flush'],
    "bounds": {'pre-state': '0..2 queued chunks of symbolic length 1..chunk size, chunk size 1..3, every buffer fill below the chunk size, writer alive/dropped, waker registered or not, Ok / Err / consumer-gone', 'step': 'one producer operation (write of 0..4 bytes, flush, abort, drop; four two-operation instances) or one poll (thorough: two) with arbitrary wakers', 'bytes': 'all byte values symbolic'},
    "outside": ['interleavings inside std::sync::Mutex and weak-memory effects (the mutex is trusted to be a mutex; induction is over critical sections)', 'chunk sizes > 3 and queues longer than 4 (sizes only enter comparisons)', "write_all (std's retry loop over write)", 'the gzip arm (flate2 is a marker model)'],
    "assumptions": MODEL_ASSUMPTIONS,
}
PROPS["C12"] = {
    "units": lambda tier, seed: [
        unit_body(["body_from", "exactlen_honour"]),
        unit_chunker(ch_c12),
        unit_serve(quick=QUICK_SERVE['C12'], select=lambda c: c["group"] in ("full", "multi") and c["method"] == "GET" and c["ir"] == "absent" and c["nhdr"] <= 1, mp=lambda c: True,
                   qkey=lambda c: (c["group"], c["focus"])),
    ],
    "explanation": "size_hint()/is_end_stream() are sampled before every poll in the body and serve harnesses (exact hints equal announced minus "
    "delivered; nothing follows is_end_stream()); for streaming bodies in every consumer step from an arbitrary invariant state (lower bound <= queued bytes, no upper bound "
    "while the writer lives, upper >= queued once it is gone, no end-of-stream claim while chunks or an error are pending; the producer steps keep ready_bytes = sum of chunk lengths); "
    "for multipart bodies after every poll of the state machine (exact hint = remaining, end flag only in the end state) and before the first poll in serve().",
    "functions": ["body::Body::size_hint", "body::Body::is_end_stream", "chunker::Reader::size_hint", "chunker::Reader::is_end_stream"],
    "bounds": {"see": "C01, C06, C08, C11"},
    "outside": ["gzip bodies (C09)"],
    "assumptions": MODEL_ASSUMPTIONS,
}
PROPS["C13"] = {
    "units": lambda tier, seed: [
        unit_range(),
        unit_serve(quick=QUICK_SERVE['C13'], select=g("m405", "unsat", methods=("POST", "EXT", "GET")), qkey=lambda c: (c["group"], c["method"])),
        unit_etag(["etag_list_sym", "etag_match_im", "etag_match_inm", "etag_match_im_noetag", "etag_match_inm_noetag"]),
    ],
    "explanation": "Kani's built-in checks (arithmetic overflow, slice bounds, unwrap/expect, unreachable) are the oracle: the Range parser over all "
    "64-bit numbers and near-miss texts, the tag-list iterator over symbolic bytes, serve() over the structural configurations; 405 + Allow + "
    "no entity access for other methods.",
    "functions": ["range::parse", "etag::List::next", "serving::serve"],
    "bounds": {"header texts": "generated skeletons and near-miss texts, not arbitrary bytes (fully symbolic text is out of reach)"},
    "outside": ["arbitrary header bytes", "repeated header lines", "modification times before 1970 / after 9999 (httpdate panics there; treated as not well-formed)"],
    "assumptions": MODEL_ASSUMPTIONS,
}
PROPS["C14"] = {
    "units": lambda tier, seed: [
        unit_serve(quick=QUICK_SERVE['C14'], select=lambda c: c["group"] in ("full", "unsat") or (c["group"] == "single" and c["ir"] in ("absent", "same")), precond=True,
                   qkey=lambda c: (c["group"], c["method"], c["focus"], c["has_mtime"]) if c["group"] == "full" else (c["group"], c["method"])),
    ],
    "explanation": "serve(): Accept-Ranges, ETag bytes, Date/Last-Modified presence, Last-Modified = min(mtime, now) truncated <= Date, entity headers on "
    "200/206-without-If-Range and absent on 416, with clock and modification time symbolic; parse_modified_hdrs with the date equal "
    "to the modification second (what an echo of Last-Modified is) is part of C04's symbolic dates.",
    "functions": ["serving::serve_inner", "serving::parse_modified_hdrs"],
    "bounds": {"see": "C01, C04"},
    "outside": ["round trips when the modification time is in the future (Last-Modified is then the clock, which moves)"],
    "assumptions": MODEL_ASSUMPTIONS,
}
PROPS["C15"] = {
    "units": lambda tier, seed: [
        unit_serve(quick=QUICK_SERVE['C15'], select=g("full", "single", "multi", "unsat", methods=("HEAD",)), qkey=lambda c: (c["group"], c["ir"] == "absent")),
        unit_gzip(["sb_build_gzip", "sb_build_absent"]),
    ],
    "explanation": "Every serve() configuration is also executed with HEAD: same status/headers assertions as GET, empty body with exact hint 0, zero "
    "get_range calls; streaming_body returns no writer exactly for HEAD.",
    "functions": ["serving::serve_inner", "StreamingBodyBuilder::build"],
    "bounds": {"see": "C01"},
    "outside": [],
    "assumptions": MODEL_ASSUMPTIONS,
}
PROPS["C16"] = {
    "units": lambda tier, seed: [unit_lib()],
    "explanation": "should_gzip on generated Accept-Encoding skeletons (1..3 elements over gzip/identity/*/br, weights present or absent, whitespace "
    "variants) with every weight a symbolic value 0..1000 (crate-private parse_qvalue stubbed), compared with an RFC 7231 5.3.4 model; "
    "parse_qvalue on all printable strings of <= 6 bytes vs the qvalue grammar; ~60 concrete near-miss values through the real parser.",
    "functions": ["should_gzip", "parse_qvalue"],
    "bounds": {"elements": "1..3", "weights": "all 0..=1000 + 'not a qvalue'", "qvalue text": "<= 6 printable ASCII bytes"},
    "outside": ["lists of 4+ elements", "qvalue texts containing '+' (u16::from_str accepts a sign; not grammatical)", "header text outside the generated shapes"],
    "assumptions": MODEL_ASSUMPTIONS,
}
PROPS["C17"] = {
    "units": lambda tier, seed: [unit_gzip(SB_BUILD)],
    "explanation": "streaming_body(&req).build() for Request and Parts, method in {GET, HEAD, POST}, 9 Accept-Encoding values, gzip level symbolic in the documented range 0..=9, "
    "chunk size 1..4: Vary always; Content-Encoding: gzip iff negotiated and level > 0; the writer's arm (gzip encoder vs raw) agrees "
    "with the header; encoder created with the configured level.",
    "functions": ["streaming_body", "StreamingBodyBuilder::build", "gzip::BodyWriter::raw/gzipped"],
    "bounds": {"Accept-Encoding": "9 values", "level": "0..=9 (the documented domain of with_gzip_level)"},
    "outside": ["the bytes the real flate2 encoder produces (marker model)"],
    "assumptions": MODEL_ASSUMPTIONS,
}
PROPS["C18"] = {
    "units": lambda tier, seed: [unit_file()],
    "explanation": "PARTIAL. The real ChunkedReadFile::get_range (futures_util::stream::unfold over the real async block, block_in_place = call) is polled twice from an ARBITRARY range a..b "
    "(the unfold state is just the remaining range, so this is every mid-state of a longer read: induction over polls) with the positioned read replaced by a stub that follows "
    "FileExt::read_at's documented contract (1..=chunk_size bytes, or an error) and records its arguments: exactly one read per chunk, at the next owed byte, for min(65536, remaining) bytes; "
    "chunks non-empty and inside the range; a failed read (file truncated) surfaces as a stream error, never as a short clean end; the stream ends exactly when the range is complete and never returns Pending. "
    "etag(): quoted tag of four fields inode:len:secs:nanos in this order at fixed width (hence equal for equal metadata, different when any of them differs), fitting the reserved buffer; len()/last_modified() are the captured values.",
    "functions": ["file::ChunkedReadFile::get_range", "file::ChunkedReadFile::etag", "file::ChunkedReadFile::len", "file::ChunkedReadFile::last_modified"],
    "bounds": {"range": "all a <= b <= len in u64 (replayable twin: len <= 64 MiB)", "polls": "2 from an arbitrary range (induction)", "reads": "each returns any 1..=chunk_size bytes or fails"},
    "outside": ["ChunkedReadFile::new / new_with_metadata (is_file refusal, platform::file_info): std::fs::Metadata can only come from the operating system",
                "platform::FileExt::read_at itself (libc::pread, 0 bytes -> UnexpectedEof, off_t conversion): stubbed by its contract",
                "hexadecimal rendering (std's LowerHex; replaced by fixed-width numerals of the maximum width)", "serving such an entity through serve() (the entity contract is what C01-C07 assume)"],
    "assumptions": MODEL_ASSUMPTIONS + ["platform::FileExt::read_at is replaced by a contract stub; std::fs::File is a never-used, never-closed handle"],
    "level_note_extra": "partial: stream accounting and ETag format only",
}
PROPS["C19"] = {
    "units": lambda tier, seed: [unit_dir()],
    "explanation": "validate_path on every ASCII path of <= 10 bytes (two harnesses: <= 7 and <= 10, the small one keeps counterexamples short) vs the rule: NUL anywhere, leading '/', or a '/'-separated segment equal to '..'; "
                   "Node::encoding / encoding_varies / add_encoding_headers for every (auto_gzip, is_gzipped) with is_gzipped => auto_gzip and a header map with or without stale Content-Encoding / Vary values. "
                   "Counterexamples are replayed through FsDir::get on a real temporary directory (a secret file outside the base; device+inode compared with what std opens for base/path).",
    "functions": ["dir::validate_path", "dir::Node::encoding", "dir::Node::encoding_varies", "dir::Node::add_encoding_headers"],
    "bounds": {"path": "<= 10 bytes (thorough: <= 16 bytes)", "node": "all 6 reachable (auto_gzip, is_gzipped) x stale-header combinations; File/Metadata are never-read placeholders"},
    "outside": ["openat and the decision WHICH file is opened (.gz first, directory skipped, NotFound fallback): behind spawn_blocking, libc::openat and std::fs::Metadata, which only the operating system produces; the native replayer exercises it on one tree per counterexample but the solver does not decide it", "longer paths"],
    "assumptions": MODEL_ASSUMPTIONS,
    "level_note_extra": "partial: path validation and the Node's encoding reporting; which file is opened is outside",
}
PROPS["C20"] = {
    "units": lambda tier, seed: [
        unit_body(["exactlen_fault", "exactlen_honour", "body_from"], panic_tags=("C13", "C20")),
        unit_chunker(ch_c20, panic_tags=("C13", "C20")),
        unit_serve(None, panic_tags=("C13", "C20"), mp=lambda c: c["ev"] == "e" or c["state"] >= 2 * c["n"]),
    ],
    "explanation": "After the first terminal event the stream-level harnesses keep polling (3 more polls): no data, no panic, for the length-checking stream under "
    "arbitrary inner streams that stay finished once finished and for fixed bodies. For the chunker and for multipart bodies terminal states are shown absorbing by induction: "
    "every terminal event leaves the fused / end state (consumer steps after clean end, error, last chunk of a finished writer; multipart steps after entity error and closing delimiter), "
    "and a poll from that state yields None and leaves it unchanged; no producer step leaves a fused state.",
    "functions": ["body::ExactLenStream::poll_next", "chunker::Reader::poll_next", "serving::MultipartStream::poll_next"],
    "bounds": {"extra polls": 3},
    "outside": [],
    "assumptions": MODEL_ASSUMPTIONS,
}
