"""Property registry: which harnesses decide which property, with which bounds."""
import json
import os

from . import decode, gen_range

# ---------------------------------------------------------------------------------------
# units


def _range_gen(hdir, tier):
    gen_range.generate(tier, os.path.join(hdir, "range_gen.rs"), os.path.join(hdir, "range_meta.json"))


def _range_meta(hdir):
    return json.load(open(os.path.join(hdir, "range_meta.json")))


def _range_harnesses(tier, meta):
    hs = ["range::verif_h::range_absent"]
    hs += ["range::verif_h::gen::" + n for n in sorted(meta["arith"])]
    hs += ["range::verif_h::gen::" + n for n in sorted(meta["lex"])]
    return hs


def _range_decode(short, vals, meta):
    if short.startswith("range_arith_"):
        return decode.decode_range_arith(short, vals, meta)
    if short.startswith("range_lex_"):
        return decode.decode_range_lex(short, vals, meta)
    return None


def unit_range():
    return {
        "name": "range",
        "config": "shim",
        "inject": {"range.rs": "range_h.rs"},
        "gen_fn": _range_gen,
        "load_meta": _range_meta,
        "harnesses": _range_harnesses,
        "decode": _range_decode,
        "panic_tags": ["C13", "C03"],
        "timeout": {"quick": 900, "thorough": 3000},
    }


def _serve_decode(short, vals, meta):
    if short == "serve_plain":
        return decode.decode_serve_plain(vals)
    if short.startswith("serve_range1_"):
        form = {"fl": 0, "open": 1, "suffix": 2}[short.split("_")[-1]]
        return decode.decode_serve_range1(form, vals)
    return None


def unit_serve(harnesses, panic_tags=("C13",)):
    return {
        "name": "serve",
        "config": "shim",
        "inject": {"serving.rs": "serving_h.rs"},
        "harnesses": lambda tier, meta: ["serving::verif_h::" + h for h in (harnesses[tier] if isinstance(harnesses, dict) else harnesses)],
        "decode": _serve_decode,
        "panic_tags": list(panic_tags),
        "timeout": {"quick": 900, "thorough": 3000},
    }


MODEL_ASSUMPTIONS = [
    "model crates replace http, bytes, httpdate, memchr, tokio, flate2 and smallvec (/verif/shims; same contracts, "
    "simple data structures); std::sync::{Arc,Mutex}, VecDeque and std::io in chunker.rs/gzip.rs are redirected to "
    "harness/verif_std.rs; every function body of /repo/src is compiled unchanged",
    "core::slice::memchr::memchr is stubbed by a naive loop with the same contract",
    "results are for the instantiation Data = Chunk (denotes entity byte positions), Error = HErr",
    "every solver counterexample is replayed against the real build with the real dependencies before it is reported",
]

PROPS = {}

PROPS["C03"] = {
    "units": lambda tier, seed: [
        unit_range(),
        unit_serve(["serve_plain", "serve_range1_fl", "serve_range1_open", "serve_range1_suffix"], panic_tags=("C13", "C03")),
    ],
    "explanation": "range::parse is executed symbolically on generated skeleton texts (1..3 specs, each of the three "
    "forms, optional whitespace after commas) whose numbers are free 64-bit values (integer parser stubbed) "
    "and compared with an independent RFC 7233 resolution for every entity length; near-miss texts go "
    "through the real integer parser; serve() is executed for 0/1-spec requests and its status, "
    "Content-Range, Content-Length and body are compared with the same model.",
    "functions": ["range::parse", "serving::serve", "serving::serve_inner", "body::ExactLenStream::poll_next"],
    "bounds": {
        "quick": {"specs": "1..3 (27 skeletons: all 1- and 2-spec shapes with ',' and ', '; 3 three-spec shapes)", "numbers": "all u64 + 'does not fit'", "entity length": "all u64", "near-miss texts": 47},
        "thorough": {"specs": "1..3 (all shapes, six whitespace variants)", "numbers": "all u64 + 'does not fit'", "entity length": "all u64", "near-miss texts": 47},
    },
    "outside": ["more than 3 specs", "whitespace before commas / around the first spec", "header text that is not one of the generated shapes (fully symbolic text is out of reach)", "multipart dispatch thresholds are checked under C06's harnesses"],
    "assumptions": MODEL_ASSUMPTIONS + ["the integer parser stub returns an arbitrary u64 or a parse error for each placeholder token, and parses any other text like the real parser"],
    "samples": lambda units: [a["text"] for u in units if u.get("meta") for g in sorted(u["meta"]["arith"]) for a in u["meta"]["arith"][g]],
}
