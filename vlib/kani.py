"""Runs `cargo kani` on a scratch workspace and parses its output."""
import os
import re
import subprocess
import threading
import time

from . import scratch


class HarnessResult:
    def __init__(self, name):
        self.name = name
        self.status = "NOT_RUN"  # SUCCESSFUL | FAILED | INCONCLUSIVE | NOT_RUN
        self.reason = ""
        self.checks_total = 0
        self.checks_failed = 0
        self.failed = []  # list of (check name, description, location)
        self.undetermined = 0
        self.unwind_failures = 0
        self.covers = []  # list of (description, status)
        self.time_s = None
        self.vccs = None
        self.playback = None  # list of byte lists
        self.playbacks = []
        self.log = None

    def to_json(self):
        return {
            "harness": self.name,
            "status": self.status,
            "reason": self.reason,
            "checks": self.checks_total,
            "failed_checks": [list(f) for f in self.failed][:10],
            "covers": [list(c) for c in self.covers],
            "verification_time_s": self.time_s,
            "vccs": self.vccs,
        }


CHECK_RE = re.compile(r"^Check (\d+): (.+?)\s*$")


def parse_regular(text, res):
    """Parses the regular (per-check) output of one harness."""
    lines = text.splitlines()
    i = 0
    cur = None
    while i < len(lines):
        m = CHECK_RE.match(lines[i])
        if m:
            cur = {"name": m.group(2), "status": None, "desc": "", "loc": ""}
            j = i + 1
            while j < len(lines) and lines[j].strip().startswith("-"):
                s = lines[j].strip()
                if s.startswith("- Status:"):
                    cur["status"] = s.split(":", 1)[1].strip()
                elif s.startswith("- Description:"):
                    cur["desc"] = s.split(":", 1)[1].strip().strip('"')
                elif s.startswith("- Location:"):
                    cur["loc"] = s.split(":", 1)[1].strip()
                j += 1
            is_cover = ".cover." in cur["name"] or cur["name"].startswith("cover")
            if is_cover:
                res.covers.append((cur["desc"], cur["status"], cur["loc"]))
            else:
                res.checks_total += 1
                st = cur["status"]
                if st == "FAILURE":
                    if "unwinding assertion" in cur["desc"]:
                        res.unwind_failures += 1
                    else:
                        res.checks_failed += 1
                        res.failed.append((cur["name"], cur["desc"], cur["loc"]))
                elif st in ("UNDETERMINED", "ERROR"):
                    res.undetermined += 1
            i = j
            continue
        i += 1
    m = re.search(r"Verification Time: ([0-9.]+)s", text)
    if m:
        res.time_s = float(m.group(1))
    m = re.search(r"Generated (\d+) VCC\(s\), (\d+) remaining", text)
    if m:
        res.vccs = int(m.group(2))
    if "VERIFICATION:- SUCCESSFUL" in text:
        res.status = "SUCCESSFUL"
    elif "VERIFICATION:- FAILED" in text:
        if res.checks_failed > 0:
            res.status = "FAILED"
        else:
            res.status = "INCONCLUSIVE"
            res.reason = "verification failed without a failed property (unwinding=%d undetermined=%d)" % (
                res.unwind_failures,
                res.undetermined,
            )
    else:
        res.status = "INCONCLUSIVE"
        res.reason = "no verdict in output (timeout, out of memory or tool error)"
    # an unsatisfied cover is a vacuity signal
    # concrete playback
    res.playbacks = []
    for pb in re.finditer(r"concrete_vals: Vec<Vec<u8>> = vec!\[(.*?)\];", text, re.S):
        vals = []
        for vm in re.finditer(r"vec!\[([0-9, ]*)\]", pb.group(1)):
            s = vm.group(1).strip()
            vals.append([int(x) for x in s.split(",") if x.strip()] if s else [])
        if vals not in res.playbacks:
            res.playbacks.append(vals)
    res.playback = res.playbacks[0] if res.playbacks else None


def run_one(ws, harness, timeout, log_path, extra=(), mem_kb=24_000_000, playback=False, target=None):
    """Runs one harness in its own cargo kani process (regular output). Returns HarnessResult."""
    res = HarnessResult(harness)
    res.log = log_path
    tgt = target or os.path.join(ws.dir, "tgt-" + re.sub(r"\W", "_", harness)[-60:])
    args = ["cargo", "kani", "--harness", harness, "--exact", "-Z", "stubbing", "-Z", "restrict-vtable", "--target-dir", tgt]
    if ws.features:
        args += ["--features", ",".join(ws.features)]
    if playback:
        args += ["-Z", "concrete-playback", "--concrete-playback=print"]
    args += list(extra)
    cmd = "ulimit -v %d; exec timeout -k 10 %d %s" % (
        mem_kb,
        timeout,
        " ".join("'" + a + "'" for a in args),
    )
    t0 = time.time()
    with open(log_path, "w") as lf:
        lf.write("$ " + cmd + "\n")
        lf.flush()
        p = subprocess.run(["bash", "-c", cmd], cwd=ws.crate, env=scratch.ENV, stdout=lf, stderr=subprocess.STDOUT)
    wall = time.time() - t0
    text = open(log_path, errors="replace").read()
    if "error: could not compile" in text or re.search(r"^error(\[E\d+\])?:", text, re.M) and "VERIFICATION" not in text:
        res.status = "BUILD_ERROR"
        m = re.search(r"^(error(\[E\d+\])?:.*(?:\n.*){0,6})", text, re.M)
        res.reason = m.group(1) if m else "build error"
    else:
        parse_regular(text, res)
        if p.returncode == 124 or p.returncode == 137:
            res.status = "INCONCLUSIVE"
            res.reason = "timeout after %ds" % timeout
    res.wall_s = wall
    # free the per-harness target dir right away (goto binaries are large)
    if target is None:
        subprocess.run(["rm", "-rf", tgt])
    return res


def run_many(ws, harnesses, timeout, logdir, jobs=8, extra=(), mem_kb=24_000_000, seed_target=None, playback_on_fail=True):
    """Runs harnesses of ONE workspace in parallel (see run_pool for several workspaces)."""
    jobs_list = [dict(ws=ws, harness=h, timeout=timeout, extra=extra, mem_kb=mem_kb, weight=1, seed_target=seed_target) for h in harnesses]
    res = run_pool(jobs_list, logdir, capacity=jobs, playback_on_fail=playback_on_fail)
    return [res[(id(ws), h)] for h in harnesses]


def run_pool(job_list, logdir, capacity=16, playback_on_fail=True):
    """Runs jobs {ws, harness, timeout, extra, mem_kb, weight, seed_target} in parallel processes,
    each with a private target dir, keeping the sum of the weights of running jobs <= capacity
    (weight ~ cores/memory share; a 10 GB harness has weight 3 on this 16-core/62 GB box).
    Returns {(id(ws), harness): HarnessResult}."""
    os.makedirs(logdir, exist_ok=True)
    results = {}
    cond = threading.Condition()
    state = {"load": 0}
    queue = sorted(job_list, key=lambda j: -j.get("weight", 1))

    def run_job(j):
        ws, h = j["ws"], j["harness"]
        short = re.sub(r"\W", "_", h)[-70:]
        tgt = os.path.join(ws.dir, "tgt-" + short)
        st = j.get("seed_target")
        if st and os.path.isdir(st):
            subprocess.run(["cp", "-a", "--reflink=auto", st, tgt])
        r = run_one(ws, h, j["timeout"], os.path.join(logdir, short + ".log"), extra=j.get("extra", ()), mem_kb=j.get("mem_kb", 24_000_000), target=tgt)
        if r.status == "FAILED" and playback_on_fail:
            r2 = run_one(ws, h, j["timeout"], os.path.join(logdir, short + ".playback.log"), extra=j.get("extra", ()),
                         mem_kb=j.get("mem_kb", 24_000_000), playback=True, target=tgt)
            r.playback = r2.playback
            r.playbacks = r2.playbacks
        subprocess.run(["rm", "-rf", tgt])
        return r

    def worker():
        while True:
            with cond:
                while True:
                    if not queue:
                        return
                    # first job that fits
                    pick = None
                    for j in queue:
                        if state["load"] + j.get("weight", 1) <= capacity or state["load"] == 0:
                            pick = j
                            break
                    if pick is not None:
                        queue.remove(pick)
                        state["load"] += pick.get("weight", 1)
                        break
                    cond.wait(timeout=5)
            try:
                r = run_job(pick)
            except Exception as e:  # pragma: no cover
                r = HarnessResult(pick["harness"])
                r.status = "INCONCLUSIVE"
                r.reason = "runner error: %s" % e
            with cond:
                results[(id(pick["ws"]), pick["harness"])] = r
                state["load"] -= pick.get("weight", 1)
                cond.notify_all()

    threads = [threading.Thread(target=worker) for _ in range(min(16, max(1, len(job_list))))]
    for t in threads:
        t.start()
    for t in threads:
        t.join()
    return results
