"""Scratch workspaces: a fresh copy of /repo's *current working tree* with harness modules
injected and (for the `shim` configuration) model crates patched in.  Nothing derived from
/repo/src is cached between runs; the workspace and its build output are removed at the end.
"""
import hashlib
import os
import re
import shutil
import subprocess
import tempfile

REPO = os.environ.get("VERIF_REPO", "/repo")
VERIF = os.path.dirname(os.path.dirname(os.path.abspath(__file__)))
SHIMS = os.path.join(VERIF, "shims")
HARNESS = os.path.join(VERIF, "harness")
CACHE = os.path.join(VERIF, ".cache")

SHIM_CRATES = ["http", "bytes", "httpdate", "memchr", "tokio", "flate2", "smallvec", "http-body"]

ENV = dict(os.environ)
ENV.update(
    {
        "CARGO_NET_OFFLINE": "true",
        "CARGO_TERM_COLOR": "never",
    }
)
ENV.pop("RUSTUP_TOOLCHAIN", None)
ENV.pop("RUSTFLAGS", None)


def scratch_root():
    return os.environ.get("VERIF_SCRATCH", "/var/tmp")


def tree_digest(root):
    """sha256 over the files that define the code under verification."""
    h = hashlib.sha256()
    for base in ["Cargo.toml", "Cargo.lock"]:
        p = os.path.join(root, base)
        if os.path.exists(p):
            h.update(base.encode())
            h.update(open(p, "rb").read())
    for dp, dn, fn in sorted(os.walk(os.path.join(root, "src"))):
        dn.sort()
        for f in sorted(fn):
            p = os.path.join(dp, f)
            h.update(os.path.relpath(p, root).encode())
            h.update(open(p, "rb").read())
    return h.hexdigest()


def strip_sections(toml_text):
    """Removes [dev-dependencies], [[bench]], [[example]], [profile.*] tables: only the library
    is built, and the model crates do not carry the features dev-dependencies ask for."""
    out, skip = [], False
    for line in toml_text.splitlines():
        m = re.match(r"^\s*\[+\s*([^\]]+?)\s*\]+\s*$", line)
        if m:
            name = m.group(1)
            skip = (
                name.startswith("dev-dependencies")
                or name in ("bench", "example", "test")
                or name.startswith("profile")
                or name.startswith("target.'cfg(windows)'")
            )
        if not skip:
            out.append(line)
    return "\n".join(out) + "\n"


# Rewrites of `use` lines that redirect std's synchronisation / container / io types to the
# model module `crate::verif_std` (engine K2, "std model"): the function bodies that follow are
# untouched.  Each entry: file -> list of (exact line, replacement).
STD_REWRITES = {
    "chunker.rs": [
        ("use std::collections::VecDeque;", "use crate::verif_std::VecDeque;"),
        ("use std::io::{self, Write};", "use crate::verif_std::io::{self, Write};"),
        ("use std::sync::{Arc, Mutex};", "use crate::verif_std::{Arc, Mutex};"),
    ],
    "gzip.rs": [
        ("use std::io::{self, Write};", "use crate::verif_std::io::{self, Write};"),
    ],
    # `write!(&mut Vec<u8>, ..)` in prepare_multipart: std's io::Error has pointer-tagged
    # representation and recursive drop glue that the model checker cannot get through.
    "serving.rs": [
        ("use std::io::Write;", "use crate::verif_std::io::Write;"),
    ],
}


class Workspace:
    def __init__(self, config, inject, features=(), std_model=False, gen=None, keep=False):
        """config: 'real' | 'shim'.  inject: {src file name: harness file name}.
        gen: callable(harness_dir) producing generated harness files."""
        self.config = config
        self.keep = keep
        self.features = list(features)
        self.dir = tempfile.mkdtemp(prefix="hs-verif.", dir=scratch_root())
        self.crate = os.path.join(self.dir, "crate")
        self.hdir = os.path.join(self.dir, "harness")
        self.target = os.path.join(self.dir, "target")
        self.notes = []
        os.makedirs(self.crate)
        for f in ["Cargo.toml", "Cargo.lock"]:
            shutil.copy2(os.path.join(REPO, f), os.path.join(self.crate, f))
        shutil.copytree(os.path.join(REPO, "src"), os.path.join(self.crate, "src"))
        self.digest = tree_digest(self.crate)
        shutil.copytree(HARNESS, self.hdir)
        if gen:
            gen(self.hdir)
        # Cargo.toml
        ct = os.path.join(self.crate, "Cargo.toml")
        text = strip_sections(open(ct).read())
        if config == "shim":
            text += "\n[patch.crates-io]\n"
            for c in SHIM_CRATES:
                text += '%s = { path = "%s" }\n' % (c, os.path.join(SHIMS, c))
        text += "\n[workspace]\n"
        open(ct, "w").write(text)
        os.makedirs(os.path.join(self.crate, ".cargo"), exist_ok=True)
        open(os.path.join(self.crate, ".cargo", "config.toml"), "w").write(
            "[net]\noffline = true\n"
        )
        # inject harness modules
        for src, hfile in inject.items():
            p = os.path.join(self.crate, "src", src)
            if not os.path.exists(p):
                raise RuntimeError("source file %s is missing" % src)
            with open(p, "a") as f:
                f.write(
                    '\n#[cfg(kani)]\n#[path = "%s"]\nmod verif_h;\n'
                    % os.path.join(self.hdir, hfile)
                )
        if std_model or config == "shim":
            self.apply_std_model()

    def apply_std_model(self):
        for fname, rules in STD_REWRITES.items():
            p = os.path.join(self.crate, "src", fname)
            lines = open(p).read().split("\n")
            for old, new in rules:
                idx = [i for i, l in enumerate(lines) if l.strip() == old]
                if len(idx) != 1 or idx[0] > 40:
                    raise RuntimeError(
                        "std-model rewrite: expected exactly one top-level line %r in %s" % (old, fname)
                    )
                lines[idx[0]] = "#[cfg(kani)] " + new + "\n#[cfg(not(kani))] " + old
            open(p, "w").write("\n".join(lines))
        with open(os.path.join(self.crate, "src", "lib.rs"), "a") as f:
            f.write(
                '\n#[cfg(kani)]\n#[path = "%s"]\npub(crate) mod verif_std;\n'
                % os.path.join(self.hdir, "verif_std.rs")
            )

    def prepare_lock(self, log):
        """With model crates patched in, let cargo re-resolve only those packages."""
        if self.config != "shim":
            return True
        args = ["cargo", "update", "--offline"]
        for c in SHIM_CRATES:
            args += ["-p", c]
        r = subprocess.run(args, cwd=self.crate, env=ENV, stdout=subprocess.PIPE, stderr=subprocess.STDOUT, text=True)
        log.write("$ " + " ".join(args) + "\n" + r.stdout + "\n")
        if r.returncode != 0:
            # fall back: regenerate the lock file offline
            os.remove(os.path.join(self.crate, "Cargo.lock"))
            r = subprocess.run(
                ["cargo", "generate-lockfile", "--offline"],
                cwd=self.crate, env=ENV, stdout=subprocess.PIPE, stderr=subprocess.STDOUT, text=True,
            )
            log.write("$ cargo generate-lockfile --offline\n" + r.stdout + "\n")
            self.notes.append("Cargo.lock regenerated offline (cargo update -p failed)")
        return r.returncode == 0

    def cleanup(self):
        if not self.keep:
            shutil.rmtree(self.dir, ignore_errors=True)
