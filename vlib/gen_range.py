"""Generates harness/range_gen.rs (skeleton families for src/range.rs) and its metadata.

A skeleton is a concrete `bytes=` text whose numbers are placeholder tokens (101, 202, ...);
the harness replaces the integer parser by a stub that hands out a free 64-bit value (or a
parse failure) for each token.  So one skeleton stands for *all* texts with that shape.
"""
import itertools
import json

PH = ["101", "202", "303", "404", "505", "606"]
U64MAX = 2**64 - 1


def skeletons(tier):
    """Returns list of (text, forms) where forms is a list of ('FL',a,b)|('Open',a)|('Suf',a)."""
    out = []
    seps2 = [",", ", "] if tier == "quick" else [",", ", ", ",\t", ",  ", ", \t", ",\t "]
    seps3 = [", "] if tier == "quick" else [",", ", ", ",\t"]
    kinds = ["FL", "Open", "Suf"]

    def render(ks):
        k = 0
        parts, forms = [], []
        for kind in ks:
            if kind == "FL":
                parts.append(f"{PH[k]}-{PH[k+1]}")
                forms.append(("FL", k, k + 1))
                k += 2
            elif kind == "Open":
                parts.append(f"{PH[k]}-")
                forms.append(("Open", k))
                k += 1
            else:
                parts.append(f"-{PH[k]}")
                forms.append(("Suf", k))
                k += 1
        return parts, forms

    for ks in itertools.product(kinds, repeat=1):
        parts, forms = render(ks)
        out.append(("bytes=" + parts[0], forms))
    for ks in itertools.product(kinds, repeat=2):
        parts, forms = render(ks)
        for s in seps2:
            out.append(("bytes=" + s.join(parts), forms))
    triples = list(itertools.product(kinds, repeat=3))
    if tier == "quick":
        # one representative per multiset of forms, rotated so each form appears in each position
        triples = [("FL", "Open", "Suf"), ("Suf", "FL", "Open"), ("Open", "Suf", "FL")]
    for ks in triples:
        parts, forms = render(ks)
        for s in seps3:
            out.append(("bytes=" + s.join(parts), forms))
    return out


def lex_cases():
    """(bytes, ignored, specs) with concrete numbers and the REAL integer parser.
    specs: list of ('FL',a,b)|('Open',a)|('Suf',a) with ints or None (does not fit u64)."""
    M = U64MAX
    big = 2**64
    c = []
    ign = lambda t: c.append((t, True, []))
    ok = lambda t, specs: c.append((t, False, specs))
    # other units / not the grammar => ignored
    ign(b"bytes")
    ign(b"bytes=")
    ign(b"byte=0-1")
    ign(b"items=0-1")
    ign(b"bytes 0-1")
    ign(b"bytes=1-2-3")
    ign(b"bytes=--1")
    ign(b"bytes=a-b")
    ign(b"bytes=1-x")
    ign(b"bytes=x-1")
    ign(b"bytes=-x")
    ign(b"bytes=-")
    ign(b"bytes=1")
    ign(b"bytes=1 -2")
    ign(b"bytes=1- 2")
    ign(b"bytes=0-1;2-3")
    ign(b"bytes=0x10-0x20")
    ign(b"bytes=1.5-2")
    ign(b"bytes=\xff-1")
    ign(b"bytes=1-\xc3\xa9")
    ign(b"\xffbytes=1-2")
    ign(b"bytes=0-1,x")
    ign(b"bytes=0-1, -")
    # boundary numbers, grammatical
    ok(b"bytes=0-18446744073709551615", [("FL", 0, M)])
    ok(b"bytes=18446744073709551615-", [("Open", M)])
    ok(b"bytes=-18446744073709551615", [("Suf", M)])
    ok(b"bytes=18446744073709551614-18446744073709551615", [("FL", M - 1, M)])
    ok(b"bytes=18446744073709551615-18446744073709551615", [("FL", M, M)])
    ok(b"bytes=0-0", [("FL", 0, 0)])
    ok(b"bytes=-0", [("Suf", 0)])
    ok(b"bytes=-1", [("Suf", 1)])
    ok(b"bytes=0-", [("Open", 0)])
    ok(b"bytes=00000000000000000000001-2", [("FL", 1, 2)])
    ok(b"bytes=9223372036854775808-", [("Open", 2**63)])
    ok(b"bytes=9223372036854775807-9223372036854775808", [("FL", 2**63 - 1, 2**63)])
    ok(b"bytes=4294967296-4294967297", [("FL", 2**32, 2**32 + 1)])
    ok(b"bytes=0-0,-1", [("FL", 0, 0), ("Suf", 1)])
    ok(b"bytes=500-600, 601-999", [("FL", 500, 600), ("FL", 601, 999)])
    ok(b"bytes=-0,-0", [("Suf", 0), ("Suf", 0)])
    ok(b"bytes=-0, 0-0", [("Suf", 0), ("FL", 0, 0)])
    ok(b"bytes=0-18446744073709551615,-18446744073709551615", [("FL", 0, M), ("Suf", M)])
    ok(b"bytes=1-1,\t2-2,  3-", [("FL", 1, 1), ("FL", 2, 2), ("Open", 3)])
    # numbers beyond 64 bits: grammatical, implementation may ignore; no-fail only
    ok(b"bytes=0-18446744073709551616", [("FL", 0, None)])
    ok(b"bytes=18446744073709551616-", [("Open", None)])
    ok(b"bytes=-18446744073709551616", [("Suf", None)])
    ok(b"bytes=0-99999999999999999999999999", [("FL", 0, None)])
    ok(b"bytes=340282366920938463463374607431768211456-", [("Open", None)])
    return c


def rust_bytes(b):
    s = "".join(chr(x) if 0x20 <= x < 0x7F and chr(x) not in '"\\' else "\\x%02x" % x for x in b)
    return 'b"' + s + '"'


def rust_str(t):
    return '"' + t.replace("\t", "\\t") + '"'


def form_rs(f):
    if f[0] == "FL":
        return f"Form::FL({f[1]}, {f[2]})"
    if f[0] == "Open":
        return f"Form::Open({f[1]})"
    return f"Form::Suf({f[1]})"


def spec_rs(s):
    n = lambda v: "None" if v is None else f"Some({v}u64)"
    if s[0] == "FL":
        return f"Spec::FirstLast({n(s[1])}, {n(s[2])})"
    if s[0] == "Open":
        return f"Spec::From({n(s[1])})"
    return f"Spec::Suffix({n(s[1])})"


def generate(tier, out_rs, out_meta, arith_group=3, lex_group=6):
    sks = skeletons(tier)
    lex = lex_cases()
    meta = {"arith": {}, "lex": {}, "placeholders": PH}
    L = []
    L.append("// GENERATED by vlib/gen_range.py on every run -- do not edit.")
    L.append("// SCENARIO range_arith_*: sk:u16 len:u64 (num:u64 ok:bool)x6")
    L.append("// SCENARIO range_lex_*: sk:u16 len:u64")
    L.append("#![allow(unused_imports)]")
    L.append("use super::*;")
    L.append("use super::oracle::Spec;")
    maxlen = max(len(t) for t, _ in sks)
    unwind = maxlen + 3
    # 3-spec skeletons cost ~2 min of solver time each: one per harness
    small = [x for x in sks if len(x[1]) < 3]
    big = [x for x in sks if len(x[1]) >= 3]
    groups = [small[i : i + arith_group] for i in range(0, len(small), arith_group)]
    groups += [[x] for x in big]
    for gi, g in enumerate(groups):
        name = f"range_arith_g{gi:02d}"
        meta["arith"][name] = [{"text": t, "forms": f} for t, f in g]
        L.append("#[kani::proof]")
        L.append(f"#[kani::unwind({unwind})]")
        L.append("#[kani::stub(<u64 as std::str::FromStr>::from_str, stub_u64_from_str)]")
        L.append("#[kani::stub(core::slice::memchr::memchr, naive_memchr)]")
        L.append(f"fn {name}() {{")
        L.append("    let sc = draw();")
        L.append("    match sc.sk {")
        for i, (t, f) in enumerate(g):
            forms = ", ".join(form_rs(x) for x in f)
            L.append(f"        {i} => check(&sc, {rust_str(t)}, &[{forms}]),")
        L.append("        _ => kani::assume(false),")
        L.append("    }")
        L.append("}")
    lgroups = [lex[i : i + lex_group] for i in range(0, len(lex), lex_group)]
    lunwind = max(len(t) for t, _, _ in lex) + 3
    for gi, g in enumerate(lgroups):
        name = f"range_lex_g{gi:02d}"
        meta["lex"][name] = [
            {"bytes": list(t), "ignored": ig, "specs": sp} for t, ig, sp in g
        ]
        L.append("#[kani::proof]")
        L.append(f"#[kani::unwind({lunwind})]")
        L.append("#[kani::stub(core::slice::memchr::memchr, naive_memchr)]")
        L.append(f"fn {name}() {{")
        L.append("    let sk: u16 = kani::any();")
        L.append("    let len: u64 = kani::any();")
        L.append("    match sk {")
        for i, (t, ig, sp) in enumerate(g):
            specs = ", ".join(spec_rs(x) for x in sp)
            L.append(
                f"        {i} => check_lex(len, &{rust_bytes(t + bytes([0, 0]))}[..{len(t)}], {'true' if ig else 'false'}, &[{specs}]),"
            )
        L.append("        _ => kani::assume(false),")
        L.append("    }")
        L.append("}")
    with open(out_rs, "w") as f:
        f.write("\n".join(L) + "\n")
    with open(out_meta, "w") as f:
        json.dump(meta, f)
    return meta


if __name__ == "__main__":
    import sys

    m = generate(sys.argv[1], sys.argv[2], sys.argv[3])
    print(len(m["arith"]), "arith groups;", len(m["lex"]), "lex groups")
