"""Generates harness/serve_gen.rs: instances of serve_cfg() for constant structural configurations."""
import itertools
import json

M = {"GET": 0, "HEAD": 1, "POST": 2, "EXT": 3}
IR = {"absent": 0, "same": 1, "other": 2, "weak": 3, "date": 4}
PR = {"none": 0, "unsat": 1, "sat": 2}
ETAG = {"none": 0, "strong": 1, "weak": 2, "comma": 3}


def configs(tier):
    """Returns list of (name, cfg dict, groups)."""
    out = []

    def add(group, method, etag, mtime, nhdr, ir="absent", parse="none", nranges=0):
        name = "serve_%s_%s_e%s_m%d_h%d_%s" % (group, method.lower(), etag, int(mtime), nhdr, ir)
        if nranges >= 2:
            name += "_r%d" % nranges
        cfg = dict(method=method, etag=etag, has_mtime=mtime, nhdr=nhdr, ir=ir, parse=parse, nranges=nranges, group=group)
        if name not in [n for n, _ in out]:
            out.append((name, cfg))

    # (nhdr = 3: the entity supplies a repeated header field, two Content-Language values)
    ents_q = [("none", False, 0), ("strong", True, 2), ("weak", True, 1), ("comma", False, 3)]
    # thorough: every ETag kind with and without a modification time, every header count with
    # every ETag kind at least once (the full 4 x 2 x 4 product is ~8 h of serve-level instances)
    ents_t = [("none", False, 0), ("none", True, 1), ("strong", True, 2), ("strong", False, 3),
              ("weak", True, 1), ("weak", False, 2), ("comma", False, 3), ("comma", True, 0)]
    ents = ents_q if tier == "quick" else ents_t
    for m in ("GET", "HEAD"):
        for e, mt, nh in ents:
            add("full", m, e, mt, nh)
    for m in ("POST", "EXT"):
        add("m405", m, "strong", True, 1)
        if tier != "quick":
            add("m405", m, "none", False, 0, parse="sat", nranges=1)
    for m in ("GET", "HEAD"):
        for e, mt, nh in (ents_q[:2] if tier == "quick" else ents_q):
            add("unsat", m, e, mt, nh, parse="unsat")
    # single range, If-Range variants
    for m in ("GET", "HEAD"):
        for e, mt, nh in (ents_q[:3] if tier == "quick" else ents_q):
            add("single", m, e, mt, nh, parse="sat", nranges=1)
        add("single", m, "strong", True, 2, ir="same", parse="sat", nranges=1)
        add("single", m, "comma", False, 1, ir="same", parse="sat", nranges=1)
        add("single", m, "weak", True, 1, ir="same", parse="sat", nranges=1)
        add("single", m, "none", False, 1, ir="same", parse="sat", nranges=1)
        add("single", m, "strong", True, 1, ir="other", parse="sat", nranges=1)
        add("single", m, "strong", True, 1, ir="weak", parse="sat", nranges=1)
        add("single", m, "strong", True, 1, ir="date", parse="sat", nranges=1)
        if tier != "quick":
            add("single", m, "weak", True, 1, ir="weak", parse="sat", nranges=1)
            add("single", m, "none", True, 0, ir="date", parse="sat", nranges=1)
            add("unsat", m, "strong", True, 1, ir="same", parse="unsat")
            add("unsat", m, "strong", True, 1, ir="other", parse="unsat")
    # two ranges
    for m in ("GET", "HEAD"):
        for nh in (0, 1, 2):
            add("multi", m, "strong", nh == 1, nh, parse="sat", nranges=2)
        add("multi", m, "strong", True, 2, ir="same", parse="sat", nranges=2)
        add("multi", m, "strong", False, 1, ir="other", parse="sat", nranges=2)
        if tier != "quick":
            add("multi", m, "none", False, 1, parse="sat", nranges=2)
            add("multi", m, "strong", True, 1, parse="sat", nranges=3)
            add("multi", m, "comma", False, 2, ir="same", parse="sat", nranges=3)
    return out


# Entity-stream scripts for multipart body instances: event kinds (0 Pending, 1 chunk, 2 error) of
# the 2 scripted events of each get_range call, constants per instance (chunk lengths symbolic);
# after the scripted events every stream delivers the rest of its range in one chunk.
SCRIPTS_Q = {
    "cc_pc": [1, 1, 0, 1, 1, 1],
    "cc_ec": [1, 1, 2, 1, 1, 1],
    "ce_cc": [1, 2, 1, 1, 1, 1],
    "pp_cp": [0, 0, 1, 0, 1, 1],
}


# Constant numbers for multi-range instances: (len, a0, b0, a1, b1, a2, b2).
NUMS = {
    "req": [1000, 0, 10, 20, 30, 40, 50],        # ranges + 80 each under half the entity: must be multipart
    "rev": [100000, 500, 600, 0, 10, 700, 800],   # out of order and far apart: multipart, request order kept
    "forb": [100, 0, 60, 50, 100, 0, 1],          # ranges alone reach the entity length: never multipart
    "mid": [300, 0, 20, 30, 50, 60, 61],          # in between: either answer is allowed
}


def num_variants(c, tier):
    """quick: constant numbers (the multipart-or-complete decision is a constant branch, ~100 s and
    ~5 GB per instance); thorough adds the all-symbolic instance (both answers in one formula:
    ~500 s, ~20 GB)."""
    pick = ["req", "forb"] if c["nhdr"] != 1 else ["rev", "mid"]
    if c["nhdr"] == 0:
        pick = pick + ["rev"]  # the lightest entity with out-of-order ranges (quick tier of C06)
    if c["ir"] != "absent":
        pick = ["req"]
    out = [("_" + k, [255] * 6, NUMS[k]) for k in pick]
    if tier != "quick" and c["nhdr"] == 1 and c["ir"] == "absent":
        out.append(("", [255] * 6, None))
    return out


def scripts_for(base, c, tier):
    """[(suffix, kinds)] for a multipart body instance."""
    if tier == "quick":
        pick = {0: ["cc_pc", "cc_ec"], 1: ["ce_cc"], 2: ["pp_cp"]}[c["nhdr"]] if c["ir"] == "absent" else ["cc_pc"]
        return [("_" + k, SCRIPTS_Q[k]) for k in pick]
    if c["nhdr"] == 1 and c["ir"] == "absent" and c["nranges"] == 2 and c["etag"] == "strong":
        out = []
        for ks in itertools.product((0, 1, 2), repeat=4):
            out.append(("_s" + "".join("pce"[k] for k in ks), list(ks) + [1, 1]))
        return out
    if c["nranges"] == 3:
        return [("_scc_pc_ce", [1, 1, 0, 1, 1, 2]), ("_scp_cc_ec", [1, 0, 1, 1, 2, 1])]
    return [("_" + k, v) for k, v in SCRIPTS_Q.items()]


def generate(tier, out_rs, out_meta):
    cfgs = configs(tier)
    L = ["// GENERATED by vlib/gen_serve.py on every run -- do not edit.", "use super::*;"]
    meta = {}
    for base, c0 in cfgs:
        # GET responses with an entity body are split into a headers instance and a body instance
        # (multi-range GET: the body is the MultipartStream state machine, verified poll by poll in
        # mp_step; the instance here checks the headers and the initial state serve() hands over.
        # An If-Range that does not match turns a multi-range request into a complete 200: body.)
        # (single-range 206: no split, the body is checked before the first poll only)
        split = c0["method"] == "GET" and (c0["group"] == "full" or (c0["group"] == "multi" and c0["ir"] == "other"))
        # a single-range GET whose If-Range does not match is answered by the complete 200: split too
        honoured = c0["ir"] == "absent" or (c0["ir"] == "same" and c0["etag"] in ("strong", "comma"))
        if c0["method"] == "GET" and c0["group"] == "single" and not honoured:
            split = True
        parts = [(1, "_hd"), (2, "_bd")] if split else [(0, "")]
        for focus, suffix in parts:
            variants = [("", [255] * 6, None)]
            if c0["group"] == "multi" and not split and tier == "quick":
                # quick-tier twins with constant numbers (the multipart-or-complete decision is then
                # a constant branch); the all-symbolic instance keeps its name
                variants = variants + num_variants(c0, tier)
            for vs, kinds, nums in variants:
                name = base + suffix + vs
                c = dict(c0, focus=focus, script=kinds, nums=nums)
                meta[name] = c
                L.append(
                    ("serve_harness" if c["nranges"] >= 2 else "serve_harness_nomulti") + "!(%s, Cfg { method: %d, etag: %d, has_mtime: %s, nhdr: %d, ir: %d, parse: %d, nranges: %d, focus: %d, script: [%s], nums: %s });"
                    % (name, M[c["method"]], ETAG[c["etag"]], "true" if c["has_mtime"] else "false", c["nhdr"], IR[c["ir"]], PR[c["parse"]], c["nranges"], focus, ", ".join(str(k) for k in kinds), "None" if nums is None else "Some([%s])" % ", ".join(str(v) for v in nums))
                )
    open(out_rs, "w").write("\n".join(L) + "\n")
    json.dump(meta, open(out_meta, "w"))
    return meta


if __name__ == "__main__":
    import sys
    m = generate(sys.argv[1], sys.argv[2], sys.argv[3])
    from collections import Counter
    print(len(m), Counter(c["group"] for c in m.values()))
