"""Decoding of Kani concrete-playback vectors into replayable scenarios.

Every harness draws all its nondeterminism up front in a fixed order (documented next to the
harness); a playback is the list of byte vectors of those draws, little endian.
"""
import json

U64MAX = 2**64 - 1
K_EV = 2
K_CALLS = 3


class Reader:
    def __init__(self, vals):
        self.vals = vals
        self.i = 0

    def take(self, nbytes):
        if self.i >= len(self.vals):
            raise ValueError("playback vector too short")
        v = self.vals[self.i]
        self.i += 1
        if len(v) != nbytes:
            raise ValueError("playback item %d has %d bytes, expected %d" % (self.i - 1, len(v), nbytes))
        return int.from_bytes(bytes(v), "little")

    def u8(self):
        return self.take(1)

    def boolean(self):
        return self.take(1) != 0

    def u16(self):
        return self.take(2)

    def u32(self):
        return self.take(4)

    def u64(self):
        return self.take(8)

    def usize(self):
        return self.take(8)


ETAGS = {0: None, 1: '"a"', 2: 'W/"a"', 3: '"a, b"'}
EV_KINDS_HONOUR = ["pending", "chunk", "err"]
EV_KINDS_FAULTY = ["pending", "chunk", "err", "end"]
METHODS = {0: "GET", 1: "HEAD", 2: "POST", 3: "X7"}


def read_ent(r):
    d = dict(
        len=r.u64(), etag=r.u8(), has_mtime=r.boolean(), m_secs=r.u64(), m_nanos=r.u32(),
        now_secs=r.u64(), now_nanos=r.u32(), nhdr=r.u8(),
    )
    return d


def ent_json(d):
    hdrs = []
    if d["nhdr"] >= 1:
        hdrs.append(["content-type", "text/plain"])
    if d["nhdr"] >= 2:
        hdrs.append(["content-language", "en"])
    return {
        "len": d["len"],
        "etag": ETAGS.get(d["etag"]),
        "mtime": {"secs": d["m_secs"], "nanos": d["m_nanos"]} if d["has_mtime"] else None,
        "headers": hdrs,
    }


def read_script(r, faulty):
    scripts = []
    for _c in range(K_CALLS):
        evs = []
        for _i in range(K_EV):
            kind = r.u8()
            n = r.u64()
            k = (EV_KINDS_FAULTY[kind % 4] if faulty else EV_KINDS_HONOUR[kind % 3])
            ev = {"k": k}
            if k == "chunk":
                ev["n"] = n
            evs.append(ev)
        scripts.append(evs)
    return scripts


def num_text(n, ok):
    """A DIGIT string for a scripted number: parseable => its decimal text; unparseable =>
    a number that does not fit in 64 bits."""
    return str(n) if ok else str(2**64 + (n % 1000))


def fill_placeholders(text, placeholders, nums, oks):
    for k, ph in enumerate(placeholders):
        text = text.replace(ph, "\0%d\0" % k)
    for k in range(len(placeholders)):
        text = text.replace("\0%d\0" % k, num_text(nums[k], oks[k]))
    return text


def decode_range_arith(harness_short, vals, meta):
    r = Reader(vals)
    sk = r.u16()
    length = r.u64()
    nums, oks = [], []
    for _ in range(6):
        nums.append(r.u64())
        oks.append(r.boolean())
    arms = meta["arith"][harness_short]
    if sk >= len(arms):
        return None
    text = fill_placeholders(arms[sk]["text"], meta["placeholders"], nums, oks)
    return {
        "kind": "serve", "method": "GET", "headers": [["range", text]],
        "entity": {"len": length, "etag": None, "mtime": None, "headers": []},
        "polls": 10,
    }


def decode_range_lex(harness_short, vals, meta):
    r = Reader(vals)
    sk = r.u16()
    length = r.u64()
    arms = meta["lex"][harness_short]
    if sk >= len(arms):
        return None
    return {
        "kind": "serve", "method": "GET", "headers": [["range", arms[sk]["bytes"]]],
        "entity": {"len": length, "etag": None, "mtime": None, "headers": []},
        "polls": 10,
    }


def decode_serve_plain(vals):
    r = Reader(vals)
    method = r.u8()
    d = read_ent(r)
    scripts = read_script(r, False)
    return {
        "kind": "serve", "method": METHODS.get(method, "X7"), "headers": [],
        "entity": ent_json(d), "now_secs": d["now_secs"], "scripts": scripts, "polls": 10,
    }


def decode_serve_range1(form, vals):
    r = Reader(vals)
    method = r.u8()
    ir = r.u8()
    nums, oks = [], []
    for _ in range(4):
        nums.append(r.u64())
        oks.append(r.boolean())
    d = read_ent(r)
    scripts = read_script(r, False)
    text = ["bytes=101-202", "bytes=101-", "bytes=-101"][form]
    text = fill_placeholders(text, ["101", "202", "303", "404"], nums, oks)
    headers = [["range", text]]
    if ir == 1:
        headers.append(["if-range", ETAGS.get(d["etag"]) or '"a"'])
    elif ir == 2:
        headers.append(["if-range", '"b"'])
    elif ir == 3:
        headers.append(["if-range", 'W/"a"'])
    elif ir == 4:
        future = (d["m_secs"], d["m_nanos"]) > (d["now_secs"], d["now_nanos"])
        headers.append(["if-range", {"http_date": d["now_secs"] if future else d["m_secs"]}])
    return {
        "kind": "serve", "method": METHODS.get(method, "GET"), "headers": headers,
        "entity": ent_json(d), "now_secs": d["now_secs"], "scripts": scripts, "polls": 10,
    }
