"""Decoding of Kani concrete-playback vectors into replayable scenarios.

Every harness draws all its nondeterminism up front in a fixed order (documented next to the
harness); a playback is the list of byte vectors of those draws, little endian.
"""
import json

U64MAX = 2**64 - 1
K_EV = 2
K_CALLS = 3


class Reader:
    def __init__(self, vals):
        self.vals = vals
        self.i = 0

    def take(self, nbytes):
        if self.i >= len(self.vals):
            raise ValueError("playback vector too short")
        v = self.vals[self.i]
        self.i += 1
        if len(v) != nbytes:
            raise ValueError("playback item %d has %d bytes, expected %d" % (self.i - 1, len(v), nbytes))
        return int.from_bytes(bytes(v), "little")

    def u8(self):
        return self.take(1)

    def boolean(self):
        return self.take(1) != 0

    def u16(self):
        return self.take(2)

    def u32(self):
        return self.take(4)

    def u64(self):
        return self.take(8)

    def usize(self):
        return self.take(8)


ETAGS = {0: None, 1: '"a"', 2: 'W/"a"', 3: '"a, b"'}
EV_KINDS_HONOUR = ["pending", "chunk", "err"]
EV_KINDS_FAULTY = ["pending", "chunk", "err", "end"]
METHODS = {0: "GET", 1: "HEAD", 2: "POST", 3: "X7"}


def read_ent(r):
    d = dict(
        len=r.u64(), etag=r.u8(), has_mtime=r.boolean(), m_secs=r.u64(), m_nanos=r.u32(),
        now_secs=r.u64(), now_nanos=r.u32(), nhdr=r.u8(),
    )
    return d


def ent_json(d):
    hdrs = []
    if d["nhdr"] >= 1:
        hdrs.append(["content-type", "text/plain"])
    if d["nhdr"] >= 2:
        hdrs.append(["content-language", "en"])
    if d["nhdr"] >= 3:
        hdrs.append(["content-language", "de"])
    return {
        "len": d["len"],
        "etag": ETAGS.get(d["etag"]),
        "mtime": {"secs": d["m_secs"], "nanos": d["m_nanos"]} if d["has_mtime"] else None,
        "headers": hdrs,
    }


def read_script(r, faulty):
    scripts = []
    for _c in range(K_CALLS):
        evs = []
        for _i in range(K_EV):
            kind = r.u8()
            n = r.u64()
            k = (EV_KINDS_FAULTY[kind % 4] if faulty else EV_KINDS_HONOUR[kind % 3])
            ev = {"k": k}
            if k == "chunk":
                ev["n"] = n
            evs.append(ev)
        scripts.append(evs)
    return scripts


def num_text(n, ok):
    """A DIGIT string for a scripted number: parseable => its decimal text; unparseable =>
    a number that does not fit in 64 bits."""
    return str(n) if ok else str(2**64 + (n % 1000))


def fill_placeholders(text, placeholders, nums, oks):
    for k, ph in enumerate(placeholders):
        text = text.replace(ph, "\0%d\0" % k)
    for k in range(len(placeholders)):
        text = text.replace("\0%d\0" % k, num_text(nums[k], oks[k]))
    return text


def decode_range_arith(harness_short, vals, meta):
    r = Reader(vals)
    sk = r.u16()
    length = r.u64()
    nums, oks = [], []
    for _ in range(6):
        nums.append(r.u64())
        oks.append(r.boolean())
    arms = meta["arith"][harness_short]
    if sk >= len(arms):
        return None
    text = fill_placeholders(arms[sk]["text"], meta["placeholders"], nums, oks)
    return {
        "kind": "serve", "method": "GET", "headers": [["range", text]],
        "entity": {"len": length, "etag": None, "mtime": None, "headers": []},
        "polls": 10,
    }


def decode_range_lex(harness_short, vals, meta):
    r = Reader(vals)
    sk = r.u16()
    length = r.u64()
    arms = meta["lex"][harness_short]
    if sk >= len(arms):
        return None
    return {
        "kind": "serve", "method": "GET", "headers": [["range", arms[sk]["bytes"]]],
        "entity": {"len": length, "etag": None, "mtime": None, "headers": []},
        "polls": 10,
    }


def decode_serve_plain(vals):
    r = Reader(vals)
    method = r.u8()
    d = read_ent(r)
    scripts = read_script(r, False)
    return {
        "kind": "serve", "method": METHODS.get(method, "X7"), "headers": [],
        "entity": ent_json(d), "now_secs": d["now_secs"], "scripts": scripts, "polls": 10,
    }


def decode_serve_range1(form, vals):
    r = Reader(vals)
    method = r.u8()
    ir = r.u8()
    nums, oks = [], []
    for _ in range(4):
        nums.append(r.u64())
        oks.append(r.boolean())
    d = read_ent(r)
    scripts = read_script(r, False)
    text = ["bytes=101-202", "bytes=101-", "bytes=-101"][form]
    text = fill_placeholders(text, ["101", "202", "303", "404"], nums, oks)
    headers = [["range", text]]
    if ir == 1:
        headers.append(["if-range", ETAGS.get(d["etag"]) or '"a"'])
    elif ir == 2:
        headers.append(["if-range", '"b"'])
    elif ir == 3:
        headers.append(["if-range", 'W/"a"'])
    elif ir == 4:
        future = (d["m_secs"], d["m_nanos"]) > (d["now_secs"], d["now_nanos"])
        headers.append(["if-range", {"http_date": d["now_secs"] if future else d["m_secs"]}])
    return {
        "kind": "serve", "method": METHODS.get(method, "GET"), "headers": headers,
        "entity": ent_json(d), "now_secs": d["now_secs"], "scripts": scripts, "polls": 10,
    }


IR_HEADERS = {"other": '"b"', "weak": 'W/"a"'}


def decode_serve_cfg(cfg, vals):
    """serve_cfg(): EntDraw | 3 x (a:u64 b:u64) | script. `cfg` are the harness constants."""
    r = Reader(vals)
    d = read_ent(r)
    d["etag"] = {"none": 0, "strong": 1, "weak": 2, "comma": 3}[cfg["etag"]]
    d["has_mtime"] = cfg["has_mtime"]
    # serve() only compares the modification time with the clock (in the future or not); the
    # solver's values are arbitrary and mostly too far apart to be shifted onto the real clock:
    # keep the order (and equality of the seconds), clamp the distance to ~11 days
    gap = d["m_secs"] - d["now_secs"]
    d["m_secs"] = d["now_secs"] + max(-1000000, min(1000000, gap))
    if d["m_secs"] < 0:
        d["m_secs"] = 0
    d["nhdr"] = cfg["nhdr"]
    rs = [(r.u64(), r.u64()) for _ in range(3)]
    scripts = read_script(r, False)
    headers = []
    if cfg["parse"] == "unsat":
        # any range set that selects nothing
        headers.append(["range", "bytes=%d-" % d["len"]])
    elif cfg["parse"] == "sat":
        specs = []
        for (a, b) in rs[: cfg["nranges"]]:
            if not (a < b <= d["len"]):
                return None
            specs.append("%d-%d" % (a, b - 1))
        headers.append(["range", "bytes=" + ", ".join(specs)])
    ir = cfg["ir"]
    if ir == "same":
        headers.append(["if-range", ETAGS.get(d["etag"]) or '"a"'])
    elif ir in IR_HEADERS:
        headers.append(["if-range", IR_HEADERS[ir]])
    elif ir == "date":
        future = (d["m_secs"], d["m_nanos"]) > (d["now_secs"], d["now_nanos"])
        headers.append(["if-range", {"http_date": d["now_secs"] if future else d["m_secs"]}])
    method = {"GET": "GET", "HEAD": "HEAD", "POST": "POST", "EXT": "X7"}[cfg["method"]]
    return {
        "kind": "serve", "method": method, "headers": headers,
        "entity": ent_json(d), "now_secs": d["now_secs"], "scripts": scripts, "polls": 14,
    }


def decode_mp(c, vals):
    """mp_step_*: len:u64 | 3 x (a:u64 b:u64) | 3 x hlen:usize | x:u64 | ev_n:u64.
    The pre-state (part index, bytes of the current part still owed) is reached by a multi-range
    GET whose entity streams deliver earlier parts in one chunk each and the current part up to
    the pre-state's position; the step's event follows."""
    r = Reader(vals)
    ln = r.u64()
    rs = [(r.u64(), r.u64()) for _ in range(3)]
    _hl = [r.usize() for _ in range(3)]
    x = r.u64()
    ev_n = r.u64()
    n, state = c["n"], c["state"]
    i, odd = state >> 1, state & 1 == 1
    specs = []
    for (a, b) in rs[:n]:
        if not (a < b <= ln):
            return None
        specs.append("%d-%d" % (a, b - 1))
    scripts = [[] for _ in range(3)]
    if odd and i < n:
        li = rs[i][1] - rs[i][0]
        evs = []
        if c["cur"]:
            if x > li:
                return None
            evs.append({"k": "chunk", "n": li - x} if li - x > 0 else {"k": "pending"})
        evs.append({"p": {"k": "pending"}, "c": {"k": "chunk", "n": ev_n}, "e": {"k": "err"}}[c["ev"]])
        scripts[i] = evs
    return {
        "kind": "serve", "method": "GET", "headers": [["range", "bytes=" + ", ".join(specs)]],
        "entity": {"len": ln, "etag": None, "mtime": None, "headers": []},
        "now_secs": 1000000, "scripts": scripts, "polls": 24,
    }


def decode_file(short, vals, meta):
    """file_range_step[_small]: len:u64 a:u64 b:u64 | 3 x (fails:bool n:usize); file_etag_syntax: len inode secs nanos"""
    r = Reader(vals)
    if short.startswith("file_range_step"):
        ln, a, b = r.u64(), r.u64(), r.u64()
        reads = [{"fails": r.boolean(), "n": r.usize()} for _ in range(3)]
        if ln > (1 << 26):
            return None
        return {"kind": "file", "len": ln, "a": a, "b": b, "reads": reads}
    if short == "file_etag_syntax":
        ln = r.u64()
        _inode, secs, nanos = r.u64(), r.u64(), r.u32()
        if ln > (1 << 26):
            ln = 1000
        return {"kind": "file", "len": ln, "a": 0, "b": 0, "reads": [], "etag_probe": {"secs": secs, "nanos": nanos}}
    return None


def decode_prep(short, vals):
    """prep_unit_n<k>_<noincl|hN>_<req|any>: len:u64 | 3 x (a:u64 b:u64). A multi-range GET; without
    entity headers in the parts = with an If-Range that matches the entity's strong ETag."""
    r = Reader(vals)
    ln = r.u64()
    rs = [(r.u64(), r.u64()) for _ in range(3)]
    parts = short.split("_")
    n = int(parts[2][1:])
    incl = parts[3] != "noincl"
    nhdr = int(parts[3][1:]) if incl else 1
    specs = []
    for (a, b) in rs[:n]:
        if not (a < b <= ln):
            return None
        specs.append("%d-%d" % (a, b - 1))
    headers = [["range", "bytes=" + ", ".join(specs)]]
    if not incl:
        headers.append(["if-range", '"a"'])
    hdrs = [["content-type", "text/plain"], ["content-language", "en"]][:nhdr]
    return {
        "kind": "serve", "method": "GET", "headers": headers,
        "entity": {"len": ln, "etag": '"a"', "mtime": None, "headers": hdrs},
        "now_secs": 1000000, "scripts": [[], [], []], "polls": 24,
    }


def decode_precond(arms, vals):
    """precond_gNN: sk:u16 has_mtime:bool m_secs:u64 m_nanos:u32 ius:u64 ims:u64"""
    r = Reader(vals)
    sk = r.u16()
    has_mtime = r.boolean()
    m_secs, m_nanos, ius, ims = r.u64(), r.u32(), r.u64(), r.u64()
    if sk >= len(arms):
        return None
    a = arms[sk]
    headers = []
    if a["im"] is not None:
        headers.append(["if-match", a["im"]])
    if a["inm"] is not None:
        headers.append(["if-none-match", a["inm"]])
    if a["has_ius"]:
        headers.append(["if-unmodified-since", {"http_date": ius}])
    if a["has_ims"]:
        headers.append(["if-modified-since", {"http_date": ims}])
    # The preconditions only COMPARE dates (second granularity; the modification time also has
    # nanoseconds). The solver's values are arbitrary 64-bit seconds, mostly far in the future and
    # far apart, which the real clock cannot host; they are remapped order- and equality-
    # preserving onto seconds shortly before the replayer's real "now" (no shift requested).
    import time as _t
    base = int(_t.time()) - 100000
    rank = {v: i for i, v in enumerate(sorted({m_secs, ius, ims}))}
    m2, ius2, ims2 = (base + 10 * rank[v] for v in (m_secs, ius, ims))
    for h in headers:
        if h[0] == "if-unmodified-since":
            h[1] = {"http_date": ius2}
        if h[0] == "if-modified-since":
            h[1] = {"http_date": ims2}
    return {
        "kind": "serve", "method": "GET", "headers": headers,
        "entity": {"len": 10, "etag": ETAGS.get(a["etag"]),
                   "mtime": {"secs": m2, "nanos": m_nanos} if has_mtime else None, "headers": [["content-type", "text/plain"]]},
        "polls": 6,
    }


def read_array(r, n):
    """[u8; n] drawn with one kani::any(): either one n-byte item or n one-byte items."""
    if r.i < len(r.vals) and len(r.vals[r.i]) == n and n != 1:
        v = r.vals[r.i]
        r.i += 1
        return list(v)
    return [r.u8() for _ in range(n)]


def decode_body(short, vals, meta):
    """exactlen_honour / exactlen_fault: len:u64 | 4 x (kind:u8 n:u64)"""
    if not short.startswith("exactlen_"):
        return None
    faulty = "fault" in short
    r = Reader(vals)
    length = r.u64()
    evs = []
    for _ in range(6 if short.endswith("6") else 4):
        kind, n = r.u8(), r.u64()
        k = EV_KINDS_FAULTY[kind % 4] if faulty else EV_KINDS_HONOUR[kind % 3]
        ev = {"k": k}
        if k == "chunk":
            ev["n"] = n
        evs.append(ev)
    return {
        "kind": "serve", "method": "GET", "headers": [],
        "entity": {"len": length, "etag": None, "mtime": None, "headers": []},
        "faulty": faulty, "scripts": [evs], "polls": 12,
    }


def decode_etag(short, vals, meta):
    """etag_match_{im,inm}[_noetag]: buf:[u8;8] n:usize e:[u8;5] ne:usize ; etag_list_sym: buf:[u8;8] n:usize"""
    if short == "etag_list_sym":
        r = Reader(vals)
        buf = read_array(r, 8)
        n = r.usize()
        if n > 8:
            return None
        # the tag list is iterated for If-None-Match (and If-Match) of any request with an ETag'd entity
        return [{"kind": "serve", "method": "GET", "headers": [[name, buf[:n]]],
                 "entity": {"len": 10, "etag": [0x22, 0x61, 0x22], "mtime": None, "headers": []}, "polls": 6}
                for name in ("if-none-match", "if-match")]
    if not short.startswith("etag_match_"):
        return None
    r = Reader(vals)
    buf = read_array(r, 8)
    n = r.usize()
    e = read_array(r, 5)
    ne = r.usize()
    if n > 8 or ne > 5:
        return None
    has = not short.endswith("_noetag")
    name = "if-match" if "_im" in short else "if-none-match"
    return {
        "kind": "serve", "method": "GET", "headers": [[name, buf[:n]]],
        "entity": {"len": 10, "etag": e[:ne] if has else None, "mtime": None, "headers": []}, "polls": 6,
    }


def weight_text(w, ok):
    if not ok:
        return "2"
    if w >= 1000:
        return "1.000"
    return "0.%03d" % w


def decode_ae(short, vals, meta):
    r = Reader(vals)
    if short.startswith("ae_sk_"):
        sk = r.u16()
        ws = []
        for _ in range(3):
            w, ok = r.u16(), r.boolean()
            ws.append((w, ok))
        arms = meta["sk"][short]
        if sk >= len(arms):
            return None
        text = arms[sk]["text"]
        for k, ph in enumerate(meta["placeholders"]):
            text = text.replace(ph, weight_text(*ws[k]))
        return {"kind": "should_gzip", "accept_encoding": text}
    if short.startswith("ae_lex_"):
        sk = r.u16()
        arms = meta["lex"][short]
        if sk >= len(arms):
            return None
        return {"kind": "should_gzip", "accept_encoding": arms[sk]["bytes"]}
    if short == "qvalue_sym":
        buf = read_array(r, 6)
        n = r.usize()
        if n > 6:
            return None
        return {"kind": "should_gzip", "accept_encoding": list(b"gzip;q=") + buf[:n]}
    if short == "ae_absent":
        return {"kind": "should_gzip", "accept_encoding": None}
    return None


SB_AE = {"sb_build_absent": None, "sb_build_gzip": "gzip", "sb_build_identity": "identity", "sb_build_gzip_q0": "gzip;q=0",
         "sb_build_star": "*", "sb_build_pref_gzip": "identity;q=0.5, gzip;q=1.0", "sb_build_pref_identity": "identity;q=1.0, gzip;q=0.5",
         "sb_build_others": "br, deflate", "sb_build_empty": ""}


def decode_gzip(short, vals, meta):
    r = Reader(vals)
    if short in SB_AE:
        method, level, chunk, as_parts, set_level = r.u8(), r.u32(), r.usize(), r.boolean(), r.boolean()
        sc = {"kind": "streaming", "method": ["GET", "HEAD", "POST"][method % 3], "accept_encoding": SB_AE[short],
              "chunk_size": chunk, "parts": as_parts,
              "ops": [{"op": "write_all", "data": [97, 98, 99, 100, 101]}, {"op": "flush"}, {"op": "drop_writer"}]}
        if set_level:
            sc["gzip_level"] = level
        return sc
    if short.startswith("sb_dead_after_abort"):
        gz = short.endswith("_gz")
        return {"kind": "streaming", "method": "GET", "accept_encoding": "gzip" if gz else None, "chunk_size": 4,
                "ops": ([] if gz else [{"op": "write", "data": [1]}]) + [{"op": "abort"}, {"op": "write", "data": [1]}, {"op": "flush"}]}
    return None


CH_OPS = {0: "write", 1: "flush", 2: "poll", 3: "abort", 4: "write_all", 5: "nop"}


def decode_chunker(short, vals, meta):
    """prod_*/cons_*/rdrop_*: l0:usize l1:usize q0:[u8;3] q1:[u8;3] wb:[u8;3] data:[u8;8] w1:u8 w2:u8.
    The pre-state is turned into a history that reaches it through the public API; then the
    operations of the step follow."""
    short = short.split("::")[-1]
    m = meta.get(short)
    if not m:
        return None
    r = Reader(vals)
    l = [r.usize(), r.usize()]
    q = [read_array(r, 3), read_array(r, 3)]
    wb = read_array(r, 3)
    data = read_array(r, 8)
    wk = [r.u8(), r.u8()]
    pre = m["pre"]
    cap = pre["cap"]
    ops = []
    if pre["state"] == "ok":
        if pre["waker"]:
            ops.append({"op": "poll", "n": 1, "waker": 0})
        for i in range(pre["nq"]):
            ops.append({"op": "write_all", "data": q[i][:max(1, min(l[i], cap, 3))]})
            ops.append({"op": "flush"})
    elif pre["state"] == "err":
        ops.append({"op": "abort"})
    if pre["buf"] != 255:
        ops.append({"op": "write", "data": wb[:pre["buf"]]})
    if pre["state"] == "fused":
        if m["family"] == "prod":
            ops.append({"op": "drop_body"})
        else:
            ops += [{"op": "drop_writer"}, {"op": "poll", "n": 1, "waker": 0}]
    if pre["state"] == "ok" and pre["wd"]:
        ops.append({"op": "drop_writer"})
    if m["family"] == "prod":
        off = 0
        names = {"W": "write", "A": "write_all", "F": "flush", "X": "abort", "D": "drop_writer"}
        for kind, ln in m["ops"]:
            if kind in "WA":
                ops.append({"op": names[kind], "data": data[off:off + ln]})
                off += ln
            else:
                ops.append({"op": names[kind]})
    elif m["family"] == "cons":
        for k in range(m["npolls"]):
            ops.append({"op": "poll", "n": 1, "waker": wk[0] if k == 0 else wk[1]})
        if pre["state"] == "ok" and not pre["wd"]:
            # the writer is alive: it may still add data (exposes a premature upper bound / end)
            ops.append({"op": "write_all", "data": [9, 9, 9]})
    else:
        ops.append({"op": "drop_body"})
    return {"kind": "streaming", "method": "GET", "accept_encoding": None, "chunk_size": cap, "ops": ops,
            "drain_on_flush": False, "final_polls": 16}


def decode_dir(short, vals, meta):
    """validate_path_sym[10]: buf:[u8;N] n:usize ; node_encoding: auto_gzip is_gzipped stale_ce stale_vary (bool)"""
    r = Reader(vals)
    if short.startswith("validate_path_sym"):
        N = 16 if short.endswith("16") else 13 if short.endswith("13") else 10 if short.endswith("10") else 7
        buf = read_array(r, N)
        n = r.usize()
        if n > N or any(c >= 0x80 for c in buf[:n]):
            return None
        return {"kind": "dir_path", "path": buf[:n]}
    if short == "node_encoding":
        a, g, sc, sv = r.boolean(), r.boolean(), r.boolean(), r.boolean()
        if g and not a:
            return None
        return {"kind": "dir_node", "auto_gzip": a, "is_gzipped": g, "stale_ce": sc, "stale_vary": sv}
    return None
