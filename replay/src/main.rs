//! Native replayer. usage: hs-replay <scenario.json>
//! Prints one JSON object {"observation": .., "violations": [{"property","what"}..]}.
//! The scenario is re-run through the PUBLIC API of the real http-serve build with its real
//! dependencies; the judgement uses the same reference models as the harnesses
//! (harness/oracle.rs) plus text parsers written here.

#[path = "../../harness/oracle.rs"]
mod oracle;
mod dir_kind;
mod file_kind;
mod serve_kind;
mod stream_kind;
mod textparse;

use serde_json::{json, Value};

fn main() {
    let path = std::env::args().nth(1).expect("usage: hs-replay <scenario.json>");
    let text = std::fs::read_to_string(&path).expect("read scenario");
    let sc: Value = serde_json::from_str(&text).expect("scenario is JSON");
    // silence panic messages: panics are observations here
    std::panic::set_hook(Box::new(|_| {}));
    let out = match sc["kind"].as_str().unwrap_or("") {
        "serve" => serve_kind::run(&sc),
        "should_gzip" => stream_kind::run_should_gzip(&sc),
        "streaming" => stream_kind::run_streaming(&sc),
        "file" => file_kind::run(&sc),
        "dir_path" => dir_kind::run_path(&sc),
        "dir_node" => dir_kind::run_node(&sc),
        k => json!({"error": format!("unknown scenario kind {k:?}")}),
    };
    println!("{}", serde_json::to_string(&out).unwrap());
}
