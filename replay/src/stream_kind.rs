//! Replays `should_gzip` and `streaming_body` scenarios against the real build
//! (C08, C10 sequential part, C11, C12, C16, C17, C20).
use crate::oracle::{self, Coding};
use http::header::{self, HeaderValue};
use http_body::Body as _;
use serde_json::{json, Value};
use std::io::{Read, Write};
use std::panic::{catch_unwind, AssertUnwindSafe};
use std::sync::atomic::{AtomicUsize, Ordering};
use std::sync::Arc;
use std::task::{Context, Poll, Wake, Waker};

fn bytes_of(v: &Value) -> Option<Vec<u8>> {
    match v {
        Value::String(s) => Some(s.as_bytes().to_vec()),
        Value::Array(a) => Some(a.iter().map(|x| x.as_u64().unwrap() as u8).collect()),
        _ => None,
    }
}

/// Accept-Encoding per RFC 7231 5.3.4: #( codings [ weight ] ); None = not grammatical.
pub fn parse_accept_encoding(v: &[u8]) -> Option<Vec<(Coding, u16)>> {
    let s = std::str::from_utf8(v).ok()?;
    if !s.bytes().all(|b| b == b'\t' || (32..127).contains(&b)) {
        return None;
    }
    let mut out = Vec::new();
    if s.trim_matches([' ', '\t']).is_empty() {
        return Some(out);
    }
    for el in s.split(',') {
        let el = el.trim_matches([' ', '\t']);
        if el.is_empty() {
            return None; // empty list elements: outside what the property quantifies over
        }
        let (c, q) = match el.split_once(';') {
            None => (el, 1000),
            Some((c, w)) => {
                let w = w.trim_matches([' ', '\t']);
                let qv = w.strip_prefix("q=").or_else(|| w.strip_prefix("Q="))?;
                (c.trim_matches([' ', '\t']), oracle::qvalue(qv.as_bytes())?)
            }
        };
        let is_token = !c.is_empty()
            && c.bytes().all(|b| b.is_ascii_alphanumeric() || b"!#$%&'*+-.^_`|~".contains(&b));
        if !is_token {
            return None;
        }
        let coding = match c {
            "gzip" => Coding::Gzip,
            "identity" => Coding::Identity,
            "*" => Coding::Star,
            _ => {
                // content-coding names are case-insensitive; a case variant of the three
                // names we care about is outside the exhaustive product the property lists.
                let l = c.to_ascii_lowercase();
                if l == "gzip" || l == "identity" {
                    return None;
                }
                Coding::Other
            }
        };
        out.push((coding, q));
    }
    Some(out)
}

pub fn run_should_gzip(sc: &Value) -> Value {
    let mut h = http::HeaderMap::new();
    let mut violations = Vec::new();
    let val = sc.get("accept_encoding").and_then(bytes_of);
    if let Some(v) = &val {
        match HeaderValue::from_bytes(v) {
            Ok(hv) => {
                h.insert(header::ACCEPT_ENCODING, hv);
            }
            Err(_) => return json!({"error": "not a header value"}),
        }
    }
    let r = catch_unwind(AssertUnwindSafe(|| http_serve::should_gzip(&h)));
    let got = match r {
        Ok(b) => Some(b),
        Err(_) => {
            violations.push(json!({"property": "C16", "what": "should_gzip panicked"}));
            None
        }
    };
    let exp = match &val {
        None => Some(false),
        Some(v) => parse_accept_encoding(v).map(|e| oracle::gzip_preferred(&e)),
    };
    if let (Some(g), Some(e)) = (got, exp) {
        if g != e {
            violations.push(json!({"property": "C16", "what": format!("should_gzip = {g}, RFC 7231 5.3.4 says {e}")}));
        }
    }
    json!({"observation": {"should_gzip": got, "expected": exp}, "violations": violations})
}

struct CountWaker(AtomicUsize);
impl Wake for CountWaker {
    fn wake(self: Arc<Self>) {
        self.0.fetch_add(1, Ordering::SeqCst);
    }
    fn wake_by_ref(self: &Arc<Self>) {
        self.0.fetch_add(1, Ordering::SeqCst);
    }
}

type Body = http_serve::Body<bytes::Bytes, http_serve::BoxError>;
type Writer = http_serve::BodyWriter<bytes::Bytes, http_serve::BoxError>;

pub fn run_streaming(sc: &Value) -> Value {
    let mut violations: Vec<Value> = Vec::new();
    let mut add = |p: &str, w: String| violations.push(json!({"property": p, "what": w}));
    let method = sc["method"].as_str().unwrap_or("GET");
    let ae = sc.get("accept_encoding").and_then(bytes_of);
    let level = sc.get("gzip_level").and_then(|v| v.as_u64()).map(|v| v as u32);
    let chunk = sc.get("chunk_size").and_then(|v| v.as_u64()).map(|v| v as usize);
    let as_parts = sc["parts"].as_bool().unwrap_or(false);

    let mut req = http::Request::new(());
    *req.method_mut() = http::Method::from_bytes(method.as_bytes()).unwrap();
    if let Some(v) = &ae {
        req.headers_mut().insert(header::ACCEPT_ENCODING, HeaderValue::from_bytes(v).unwrap());
    }
    let want_gzip_by_oracle = match &ae {
        None => Some(false),
        Some(v) => parse_accept_encoding(v).map(|e| oracle::gzip_preferred(&e)),
    };
    let built = catch_unwind(AssertUnwindSafe(|| {
        let mut b = if as_parts {
            let (parts, _) = req.into_parts();
            http_serve::streaming_body(&parts)
        } else {
            http_serve::streaming_body(&req)
        };
        if let Some(c) = chunk {
            b = b.with_chunk_size(c);
        }
        if let Some(l) = level {
            b = b.with_gzip_level(l);
        }
        b.build::<bytes::Bytes, http_serve::BoxError>()
    }));
    let (resp, mut writer): (http::Response<Body>, Option<Writer>) = match built {
        Ok(x) => x,
        Err(_) => {
            return json!({"observation": {"panic": "build"}, "violations": [{"property": "C17", "what": "streaming_body/build panicked"}]});
        }
    };
    let vary = resp.headers().get(header::VARY).map(|v| v.as_bytes().to_ascii_lowercase());
    if vary.as_deref() != Some(b"accept-encoding") {
        add("C17", format!("Vary header is {:?}", vary.map(|v| String::from_utf8_lossy(&v).to_string())));
    }
    let ce_gzip = resp.headers().get(header::CONTENT_ENCODING).map(|v| v.as_bytes() == b"gzip").unwrap_or(false);
    if let Some(w) = want_gzip_by_oracle {
        let want = w && level.unwrap_or(6) > 0;
        if ce_gzip != want {
            add("C17", format!("Content-Encoding gzip = {ce_gzip}, negotiation says {want}"));
        }
    }
    if (method == "HEAD") != writer.is_none() {
        add("C15", format!("method {method}: writer present = {}", writer.is_some()));
    }
    let mut body = Some(Box::pin(resp.into_body()));
    // three distinguishable wakers: a poll op may name the one it presents ("waker": 0..2)
    let cws: Vec<Arc<CountWaker>> = (0..3).map(|_| Arc::new(CountWaker(AtomicUsize::new(0)))).collect();
    let wakers: Vec<Waker> = cws.iter().map(|c| Waker::from(c.clone())).collect();

    let mut accepted: Vec<u8> = Vec::new();
    let mut delivered: Vec<u8> = Vec::new();
    let mut frames: Vec<usize> = Vec::new();
    let mut terminal: Option<&'static str> = None; // "end" | "err"
    let mut aborted = false;
    let mut body_dropped = false;
    // raw writer with a known chunk size: bytes sitting in the writer's own buffer, to tell
    // which writes complete a chunk (C11: those must fail once the body is gone)
    let mut fill: usize = 0;
    let track = !ce_gzip && chunk.is_some();
    let csz = chunk.unwrap_or(usize::MAX);
    let mut writer_gone = writer.is_none();
    let mut log: Vec<Value> = Vec::new();
    // (lower, upper, bytes delivered before) sampled before every poll: C12 end-to-end oracle
    let hints: std::cell::RefCell<Vec<(u64, Option<u64>, usize)>> = std::cell::RefCell::new(Vec::new());
    let mut parked = false;
    let mut parked_waker = 0usize;
    let mut wakes_seen = 0usize;

    let mut poll_once = |widx: usize,
                         body: &mut Option<std::pin::Pin<Box<Body>>>,
                         delivered: &mut Vec<u8>,
                         frames: &mut Vec<usize>,
                         terminal: &mut Option<&'static str>,
                         violations: &mut Vec<Value>|
     -> &'static str {
        let Some(b) = body.as_mut() else { return "nobody" };
        let hint = b.size_hint();
        let eos = b.is_end_stream();
        if terminal.is_none() {
            hints.borrow_mut().push((hint.lower(), hint.upper(), delivered.len()));
        }
        let mut cx = Context::from_waker(&wakers[widx.min(2)]);
        let r = catch_unwind(AssertUnwindSafe(|| b.as_mut().poll_frame(&mut cx)));
        let r = match r {
            Ok(r) => r,
            Err(_) => {
                violations.push(json!({"property": if terminal.is_some() {"C20"} else {"C13"}, "what": "poll_frame panicked"}));
                return "panic";
            }
        };
        match r {
            Poll::Ready(Some(Ok(f))) => {
                let d = f.into_data().unwrap_or_default().to_vec();
                if terminal.is_some() {
                    violations.push(json!({"property": "C20", "what": "data after the streaming body terminated"}));
                }
                if eos {
                    violations.push(json!({"property": "C12", "what": "is_end_stream() was true but a data frame followed"}));
                }
                if d.is_empty() {
                    violations.push(json!({"property": "C08", "what": "empty data frame"}));
                }
                if (d.len() as u64) < hint.lower() && hint.upper().is_some() && hint.upper().unwrap() < hint.lower() {
                    violations.push(json!({"property": "C12", "what": "size hint upper below lower"}));
                }
                frames.push(d.len());
                delivered.extend_from_slice(&d);
                "data"
            }
            Poll::Ready(Some(Err(_))) => {
                if eos {
                    violations.push(json!({"property": "C12", "what": "is_end_stream() was true but an error followed"}));
                }
                if terminal.is_some() {
                    violations.push(json!({"property": "C20", "what": "error after the streaming body terminated"}));
                }
                *terminal = Some("err");
                "err"
            }
            Poll::Ready(None) => {
                if terminal.is_none() {
                    *terminal = Some("end");
                }
                "end"
            }
            Poll::Pending => "pending",
        }
    };

    let ops = sc["ops"].as_array().cloned().unwrap_or_default();
    // histories that need chunks to stay queued (inductive-step counterexamples) switch the
    // "drain after every flush" oracle off; the end-to-end comparison still applies
    let drain_on_flush = sc.get("drain_on_flush").and_then(|v| v.as_bool()).unwrap_or(true);
    for op in &ops {
        let name = op["op"].as_str().unwrap_or("");
        let mut drain_after = false;
        match name {
            "write" | "write_all" => {
                let data = bytes_of(&op["data"]).unwrap_or_default();
                let Some(w) = writer.as_mut() else {
                    log.push(json!({"op": name, "skipped": true}));
                    continue;
                };
                let completing = track && !data.is_empty() && fill + data.len() >= csz;
                if name == "write" {
                    match w.write(&data) {
                        Ok(n) => {
                            if completing && body_dropped && !aborted {
                                violations.push(json!({"property": "C11", "what": "a chunk-completing write succeeded although the response body had been dropped"}));
                            }
                            fill += n;
                            if fill >= csz {
                                fill = if body_dropped || aborted { csz } else { 0 };
                            }
                            if n > data.len() {
                                violations.push(json!({"property": "C08", "what": "write reported more than the buffer"}));
                            }
                            if n == 0 && !data.is_empty() && !ce_gzip {
                                violations.push(json!({"property": "C08", "what": "write of a non-empty buffer to a live body accepted 0 bytes"}));
                            }
                            accepted.extend_from_slice(&data[..n.min(data.len())]);
                            if aborted {
                                violations.push(json!({"property": "C11", "what": "write succeeded after abort"}));
                            }
                            log.push(json!({"op": "write", "ret": n}));
                        }
                        Err(e) => {
                            if completing {
                                fill = csz;
                            }
                            if !aborted && !body_dropped {
                                violations.push(json!({"property": "C08", "what": format!("write failed on a live body: {e}")}));
                            }
                            log.push(json!({"op": "write", "err": e.to_string()}));
                        }
                    }
                } else {
                    match w.write_all(&data) {
                        Ok(()) => {
                            accepted.extend_from_slice(&data);
                            if completing && body_dropped && !aborted {
                                violations.push(json!({"property": "C11", "what": "a chunk-completing write_all succeeded although the response body had been dropped"}));
                            }
                            if track {
                                fill = (fill + data.len()) % csz;
                            }
                            if aborted {
                                violations.push(json!({"property": "C11", "what": "write_all succeeded after abort"}));
                            }
                            log.push(json!({"op": "write_all", "ok": true}));
                        }
                        Err(e) => {
                            if completing {
                                fill = csz;
                            }
                            if !aborted && !body_dropped {
                                violations.push(json!({"property": "C08", "what": format!("write_all failed on a live body: {e}")}));
                            }
                            log.push(json!({"op": "write_all", "err": e.to_string()}));
                        }
                    }
                }
            }
            "flush" => {
                let Some(w) = writer.as_mut() else { continue };
                match w.flush() {
                    Ok(()) => {
                        if track && fill > 0 && body_dropped && !aborted {
                            violations.push(json!({"property": "C11", "what": "flush of buffered data succeeded although the response body had been dropped"}));
                        }
                        fill = 0;
                        if aborted {
                            violations.push(json!({"property": "C11", "what": "flush succeeded after abort"}));
                        }
                        log.push(json!({"op": "flush", "ok": true}));
                        drain_after = true;
                    }
                    Err(e) => {
                        if !aborted && !body_dropped {
                            violations.push(json!({"property": "C08", "what": format!("flush failed on a live body: {e}")}));
                        }
                        log.push(json!({"op": "flush", "err": e.to_string()}));
                    }
                }
            }
            "poll" => {
                let n = op.get("n").and_then(|v| v.as_u64()).unwrap_or(1);
                let widx = op.get("waker").and_then(|v| v.as_u64()).unwrap_or(0) as usize;
                for _ in 0..n {
                    let before = cws[widx.min(2)].0.load(Ordering::SeqCst);
                    let r = poll_once(widx, &mut body, &mut delivered, &mut frames, &mut terminal, &mut violations);
                    parked = r == "pending";
                    if parked {
                        parked_waker = widx.min(2);
                        wakes_seen = before;
                    }
                    log.push(json!({"op": "poll", "res": r}));
                }
            }
            "abort" => {
                if let Some(w) = writer.as_mut() {
                    w.abort("aborted".into());
                    aborted = true;
                    log.push(json!({"op": "abort"}));
                }
            }
            "drop_writer" => {
                writer = None;
                writer_gone = true;
                log.push(json!({"op": "drop_writer"}));
            }
            "drop_body" => {
                body = None;
                body_dropped = true;
                log.push(json!({"op": "drop_body"}));
            }
            _ => {}
        }
        // C10 (sequential part): a parked consumer is woken by anything that changes what
        // it would see.
        if parked && matches!(name, "write" | "write_all" | "flush" | "abort" | "drop_writer") && body.is_some() {
            let now = cws[parked_waker].0.load(Ordering::SeqCst);
            let something = {
                let b = body.as_ref().unwrap();
                b.size_hint().lower() > 0 || aborted || writer_gone
            };
            if something && now == wakes_seen {
                violations.push(json!({"property": "C10", "what": format!("consumer parked on an empty queue: the waker of its latest poll was not woken by {name}")}));
            }
            if now != wakes_seen {
                parked = false;
            }
        }
        if drain_after && drain_on_flush {
            // C08: everything accepted so far is available without producer action
            if !ce_gzip && !body_dropped && body.is_some() {
                let mut guard = 0;
                loop {
                    let before = cws[0].0.load(Ordering::SeqCst);
                    let r = poll_once(0, &mut body, &mut delivered, &mut frames, &mut terminal, &mut violations);
                    guard += 1;
                    if r == "pending" {
                        parked = true;
                        parked_waker = 0;
                        wakes_seen = before;
                    }
                    if r != "data" || guard > 10000 {
                        break;
                    }
                }
                if terminal.is_none() && delivered != accepted {
                    violations.push(json!({"property": "C08", "what": format!("after flush {} bytes accepted but {} available", accepted.len(), delivered.len())}));
                }
            }
        }
    }
    // C11 second half: after the body is dropped a flush of buffered data must fail
    if body_dropped && !aborted {
        if let Some(w) = writer.as_mut() {
            let r1 = w.write(b"x");
            let r2 = w.flush();
            if r1.is_ok() && r2.is_ok() {
                violations.push(json!({"property": "C11", "what": "body dropped, but write + flush still succeed (writer never told)"}));
            }
        }
    }
    drop(writer);
    let final_polls = sc.get("final_polls").and_then(|v| v.as_u64()).unwrap_or(64);
    let mut after_terminal = 0;
    for _ in 0..final_polls {
        if body.is_none() {
            break;
        }
        let r = poll_once(0, &mut body, &mut delivered, &mut frames, &mut terminal, &mut violations);
        if terminal.is_some() {
            after_terminal += 1;
            if after_terminal > 4 {
                break;
            }
        }
        if r == "pending" || r == "panic" {
            if r == "pending" {
                violations.push(json!({"property": "C10", "what": "writer is gone but the body is still Pending"}));
            }
            break;
        }
    }
    if body.is_some() && terminal == Some("end") {
        for (lo, up, before) in hints.borrow().iter() {
            let rest = (delivered.len() - before) as u64;
            if *lo > rest {
                violations.push(json!({"property": "C12", "what": format!("size hint lower bound {lo} but only {rest} more bytes were delivered before the clean end")}));
                break;
            }
            if let Some(u) = up {
                if *u < rest {
                    violations.push(json!({"property": "C12", "what": format!("size hint upper bound {u} but {rest} more bytes were delivered")}));
                    break;
                }
            }
        }
    }
    if body.is_some() {
        match terminal {
            None => violations.push(json!({"property": "C10", "what": "body did not terminate after the writer was dropped"})),
            Some("end") if aborted => violations.push(json!({"property": "C11", "what": "clean end after abort"})),
            Some("err") if !aborted => violations.push(json!({"property": "C08", "what": "body failed without abort"})),
            _ => {}
        }
        if method != "HEAD" {
            if ce_gzip {
                if terminal == Some("end") {
                    let mut dec = flate2::read::MultiGzDecoder::new(&delivered[..]);
                    let mut out = Vec::new();
                    match dec.read_to_end(&mut out) {
                        Ok(_) if out == accepted => {}
                        Ok(_) => violations.push(json!({"property": "C17", "what": "gzip body does not decode to the written bytes"})),
                        Err(e) => violations.push(json!({"property": "C17", "what": format!("Content-Encoding: gzip but body is not gzip: {e}")})),
                    }
                }
            } else if terminal == Some("end") {
                if delivered != accepted {
                    // no Content-Encoding header: the body must be the written bytes verbatim
                    // (C08 identity; C17 "the body's actual coding always matches that header")
                    let looks_gzip = delivered.len() >= 2 && delivered[0] == 0x1f && delivered[1] == 0x8b;
                    violations.push(json!({"property": "C08", "properties": ["C08", "C17"], "what": format!("no Content-Encoding, but delivered {} bytes != accepted {} bytes (or different content{})", delivered.len(), accepted.len(), if looks_gzip { "; the body starts with a gzip header" } else { "" })}));
                }
            } else if !accepted.starts_with(&delivered) {
                violations.push(json!({"property": "C11", "what": "bytes delivered before the error are not a prefix of the bytes written"}));
            }
        }
    }
    json!({
        "observation": {"log": log, "frames": frames, "accepted": accepted.len(), "delivered": delivered.len(), "terminal": terminal, "content_encoding_gzip": ce_gzip},
        "violations": violations
    })
}
