//! Replays `ChunkedReadFile` scenarios against the real build on a real temporary file (C18).
//!
//! scenario: {"kind":"file","len":L,"a":A,"b":B,"reads":[{"fails":bool,"n":N},..]}
//! The file has L bytes with a position-dependent pattern. `fails` at read k is produced the only
//! way the real world produces it: the file is truncated to the current position just before
//! that poll, so the positioned read hits end-of-file. `n` (how much a successful read returns)
//! cannot be steered on a real file and is ignored.
use bytes::Bytes;
use futures_core::Stream;
use http_serve::Entity;
use serde_json::{json, Value};
use std::io::Write;
use std::task::{Context, Poll};

type BoxError = Box<dyn std::error::Error + Send + Sync>;

fn pattern(i: u64) -> u8 {
    (i.wrapping_mul(31).wrapping_add(i >> 8) % 251) as u8
}

pub fn run(sc: &Value) -> Value {
    let len = sc["len"].as_u64().unwrap_or(0);
    let a = sc["a"].as_u64().unwrap_or(0);
    let b = sc["b"].as_u64().unwrap_or(0);
    if len > (1 << 26) || a > b || b > len {
        return json!({"error": "file scenario outside what can be materialised (len > 64 MiB or bad range)"});
    }
    let reads: Vec<bool> = sc["reads"].as_array().map(|v| v.iter().map(|r| r["fails"].as_bool().unwrap_or(false)).collect()).unwrap_or_default();
    let dir = std::env::temp_dir().join(format!("hs-replay-file-{}", std::process::id()));
    let _ = std::fs::create_dir_all(&dir);
    let path = dir.join("f");
    {
        let mut f = std::fs::File::create(&path).expect("create");
        let mut buf = Vec::with_capacity(1 << 16);
        let mut i = 0u64;
        while i < len {
            buf.clear();
            let end = std::cmp::min(len, i + (1 << 16));
            for j in i..end {
                buf.push(pattern(j));
            }
            f.write_all(&buf).expect("write");
            i = end;
        }
    }
    let rt = tokio::runtime::Builder::new_multi_thread().worker_threads(1).build().expect("runtime");
    let mut violations: Vec<Value> = Vec::new();
    let mut add = |w: String| violations.push(json!({"property": "C18", "what": w}));
    let mut log: Vec<Value> = Vec::new();
    let path2 = path.clone();
    let res = std::panic::catch_unwind(std::panic::AssertUnwindSafe(|| {
        rt.block_on(async {
            tokio::spawn(async move {
                let f = std::fs::File::open(&path2).expect("open");
                let e: http_serve::ChunkedReadFile<Bytes, BoxError> = http_serve::ChunkedReadFile::new(f, http::HeaderMap::new()).expect("new");
                let mut out: Vec<(String, usize, bool)> = Vec::new(); // (kind, n, content ok)
                let elen = e.len();
                let etag = e.etag().map(|v| v.as_bytes().to_vec());
                let mut s = e.get_range(a..b);
                let mut cx = Context::from_waker(std::task::Waker::noop());
                let mut pos = a;
                for k in 0..64usize {
                    if reads.get(k).copied().unwrap_or(false) {
                        // truncate to the current position: the next read hits end-of-file
                        let t = std::fs::OpenOptions::new().write(true).open(&path2).expect("reopen");
                        t.set_len(pos).expect("truncate");
                    }
                    match s.as_mut().poll_next(&mut cx) {
                        Poll::Ready(Some(Ok(d))) => {
                            let ok = d.iter().enumerate().all(|(i, x)| *x == pattern(pos + i as u64));
                            out.push(("data".into(), d.len(), ok));
                            pos += d.len() as u64;
                        }
                        Poll::Ready(Some(Err(_))) => {
                            out.push(("err".into(), 0, true));
                            break;
                        }
                        Poll::Ready(None) => {
                            out.push(("end".into(), 0, true));
                            break;
                        }
                        Poll::Pending => {
                            out.push(("pending".into(), 0, true));
                            break;
                        }
                    }
                }
                (elen, etag, out, pos)
            })
            .await
        })
    }));
    let _ = std::fs::remove_dir_all(&dir);
    let (elen, etag, out, pos) = match res {
        Ok(Ok(x)) => x,
        _ => return json!({"observation": {"panic": true}, "violations": [{"property": "C18", "what": "ChunkedReadFile panicked"}]}),
    };
    if elen != len {
        add(format!("len() = {elen}, file has {len} bytes"));
    }
    match &etag {
        Some(t) if t.len() >= 2 && t[0] == b'"' && t[t.len() - 1] == b'"' && t[1..t.len() - 1].iter().all(|c| *c == 0x21 || (0x23..=0x7e).contains(c)) => {}
        other => add(format!("ETag {:?} is not a strong entity-tag", other.as_ref().map(|t| String::from_utf8_lossy(t).to_string()))),
    }
    let truncated = sc["reads"].as_array().map(|v| v.iter().take(out.len()).any(|r| r["fails"].as_bool().unwrap_or(false))).unwrap_or(false);
    let mut total = 0u64;
    for (kind, n, ok) in &out {
        log.push(json!({"res": kind, "n": n}));
        match kind.as_str() {
            "data" => {
                if *n == 0 {
                    add("empty chunk".into());
                }
                if !*ok {
                    add("chunk content differs from the file bytes at that position".into());
                }
                total += *n as u64;
                if total > b - a {
                    add("more bytes than the requested range".into());
                }
            }
            "end" => {
                if total != b - a {
                    add(format!("stream ended after {total} of {} bytes (short body)", b - a));
                }
            }
            "err" => {
                if !truncated {
                    add("stream failed although the file was not truncated".into());
                }
            }
            _ => add("stream returned Pending".into()),
        }
    }
    if out.len() >= 64 && out.last().map(|x| x.0 == "data").unwrap_or(false) && pos < b {
        // (64 reads of up to 64 KiB cover 4 MiB; longer ranges are simply not finished here)
    }
    json!({"observation": {"steps": log, "len": elen, "etag": etag.map(|t| String::from_utf8_lossy(&t).to_string())}, "violations": violations})
}
