//! Replays `ChunkedReadFile` scenarios against the real build on a real temporary file (C18).
//!
//! scenario: {"kind":"file","len":L,"a":A,"b":B,"reads":[{"fails":bool,"n":N},..]}
//! The file has L bytes with a position-dependent pattern. `fails` at read k is produced the only
//! way the real world produces it: the file is truncated to the current position just before
//! that poll, so the positioned read hits end-of-file. `n` (how much a successful read returns)
//! cannot be steered on a real file and is ignored.
use bytes::Bytes;
use futures_core::Stream;
use http_serve::Entity;
use serde_json::{json, Value};
use std::io::Write;
use std::task::{Context, Poll};

type BoxError = Box<dyn std::error::Error + Send + Sync>;

fn pattern(i: u64) -> u8 {
    (i.wrapping_mul(31).wrapping_add(i >> 8) % 251) as u8
}

pub fn run(sc: &Value) -> Value {
    let len = sc["len"].as_u64().unwrap_or(0);
    let a = sc["a"].as_u64().unwrap_or(0);
    let b = sc["b"].as_u64().unwrap_or(0);
    if len > (1 << 26) || a > b || b > len {
        return json!({"error": "file scenario outside what can be materialised (len > 64 MiB or bad range)"});
    }
    let reads: Vec<bool> = sc["reads"].as_array().map(|v| v.iter().map(|r| r["fails"].as_bool().unwrap_or(false)).collect()).unwrap_or_default();
    let dir = std::env::temp_dir().join(format!("hs-replay-file-{}", std::process::id()));
    let _ = std::fs::create_dir_all(&dir);
    let path = dir.join("f");
    {
        let mut f = std::fs::File::create(&path).expect("create");
        let mut buf = Vec::with_capacity(1 << 16);
        let mut i = 0u64;
        while i < len {
            buf.clear();
            let end = std::cmp::min(len, i + (1 << 16));
            for j in i..end {
                buf.push(pattern(j));
            }
            f.write_all(&buf).expect("write");
            i = end;
        }
    }
    let rt = tokio::runtime::Builder::new_multi_thread().worker_threads(1).build().expect("runtime");
    let mut violations: Vec<Value> = Vec::new();
    let mut add = |w: String| violations.push(json!({"property": "C18", "what": w}));
    let mut log: Vec<Value> = Vec::new();
    let path2 = path.clone();
    let res = std::panic::catch_unwind(std::panic::AssertUnwindSafe(|| {
        rt.block_on(async {
            tokio::spawn(async move {
                let f = std::fs::File::open(&path2).expect("open");
                let e: http_serve::ChunkedReadFile<Bytes, BoxError> = http_serve::ChunkedReadFile::new(f, http::HeaderMap::new()).expect("new");
                let mut out: Vec<(String, usize, bool)> = Vec::new(); // (kind, n, content ok)
                let elen = e.len();
                let etag = e.etag().map(|v| v.as_bytes().to_vec());
                let mut s = e.get_range(a..b);
                let mut cx = Context::from_waker(std::task::Waker::noop());
                let mut pos = a;
                for k in 0..64usize {
                    if reads.get(k).copied().unwrap_or(false) {
                        // truncate to the current position: the next read hits end-of-file
                        let t = std::fs::OpenOptions::new().write(true).open(&path2).expect("reopen");
                        t.set_len(pos).expect("truncate");
                    }
                    match s.as_mut().poll_next(&mut cx) {
                        Poll::Ready(Some(Ok(d))) => {
                            let ok = d.iter().enumerate().all(|(i, x)| *x == pattern(pos + i as u64));
                            out.push(("data".into(), d.len(), ok));
                            pos += d.len() as u64;
                        }
                        Poll::Ready(Some(Err(_))) => {
                            out.push(("err".into(), 0, true));
                            break;
                        }
                        Poll::Ready(None) => {
                            out.push(("end".into(), 0, true));
                            break;
                        }
                        Poll::Pending => {
                            out.push(("pending".into(), 0, true));
                            break;
                        }
                    }
                }
                (elen, etag, out, pos)
            })
            .await
        })
    }));
    let _ = std::fs::remove_dir_all(&dir);
    let (elen, etag, out, pos) = match res {
        Ok(Ok(x)) => x,
        _ => return json!({"observation": {"panic": true}, "violations": [{"property": "C18", "what": "ChunkedReadFile panicked"}]}),
    };
    if elen != len {
        add(format!("len() = {elen}, file has {len} bytes"));
    }
    match &etag {
        Some(t) if t.len() >= 2 && t[0] == b'"' && t[t.len() - 1] == b'"' && t[1..t.len() - 1].iter().all(|c| *c == 0x21 || (0x23..=0x7e).contains(c)) => {}
        other => add(format!("ETag {:?} is not a strong entity-tag", other.as_ref().map(|t| String::from_utf8_lossy(t).to_string()))),
    }
    let truncated = sc["reads"].as_array().map(|v| v.iter().take(out.len()).any(|r| r["fails"].as_bool().unwrap_or(false))).unwrap_or(false);
    let mut total = 0u64;
    for (kind, n, ok) in &out {
        log.push(json!({"res": kind, "n": n}));
        match kind.as_str() {
            "data" => {
                if *n == 0 {
                    add("empty chunk".into());
                }
                if !*ok {
                    add("chunk content differs from the file bytes at that position".into());
                }
                total += *n as u64;
                if total > b - a {
                    add("more bytes than the requested range".into());
                }
            }
            "end" => {
                if total != b - a {
                    add(format!("stream ended after {total} of {} bytes (short body)", b - a));
                }
            }
            "err" => {
                if !truncated {
                    add("stream failed although the file was not truncated".into());
                }
            }
            _ => add("stream returned Pending".into()),
        }
    }
    if out.len() >= 64 && out.last().map(|x| x.0 == "data").unwrap_or(false) && pos < b {
        // (64 reads of up to 64 KiB cover 4 MiB; longer ranges are simply not finished here)
    }
    if let Some(p) = sc.get("etag_probe") {
        for w in etag_probe(p["secs"].as_u64().unwrap_or(1_600_000_000), p["nanos"].as_u64().unwrap_or(123_456_100) as u32) {
            add(w);
        }
    }
    json!({"observation": {"steps": log, "len": elen, "etag": etag.map(|t| String::from_utf8_lossy(&t).to_string())}, "violations": violations})
}

fn etag_at(path: &std::path::Path) -> (Option<Vec<u8>>, Option<std::time::SystemTime>) {
    let f = std::fs::File::open(path).expect("open");
    let e: http_serve::ChunkedReadFile<Bytes, BoxError> = http_serve::ChunkedReadFile::new(f, http::HeaderMap::new()).expect("new");
    (e.etag().map(|v| v.as_bytes().to_vec()), e.last_modified())
}

/// "identical for every instance opened on an unmodified file and differs once the file's length
/// or modification time changes": one real file, its mtime set to (secs, nanos) and to neighbours
/// (lowest nanosecond bit flipped, +1 us, +1 ms, +1 s), then one byte longer with the mtime restored.
fn etag_probe(secs: u64, nanos: u32) -> Vec<String> {
    let mut out = Vec::new();
    let secs = secs.clamp(1, 4_000_000_000);
    let nanos = nanos % 1_000_000_000;
    let dir = std::env::temp_dir().join(format!("hs-replay-etag-{}", std::process::id()));
    let _ = std::fs::create_dir_all(&dir);
    let path = dir.join("f");
    std::fs::write(&path, b"0123456789").expect("write");
    let set = |s: u64, n: u32| {
        let f = std::fs::OpenOptions::new().write(true).open(&path).expect("reopen");
        f.set_modified(std::time::UNIX_EPOCH + std::time::Duration::new(s, n)).expect("set mtime");
    };
    set(secs, nanos);
    let (e1, m1) = etag_at(&path);
    if m1 != Some(std::time::UNIX_EPOCH + std::time::Duration::new(secs, nanos)) {
        // the file system does not keep nanoseconds: the probe cannot say anything
        let _ = std::fs::remove_dir_all(&dir);
        return out;
    }
    let (e1b, _) = etag_at(&path);
    if e1 != e1b {
        out.push("two instances opened on the unmodified file have different ETags".into());
    }
    let nb: [(u64, u32, &str); 4] = [
        (secs, nanos ^ 1, "1 ns"),
        (secs + (nanos as u64 + 1_000) / 1_000_000_000, (nanos + 1_000) % 1_000_000_000, "1 us"),
        (secs + (nanos as u64 + 1_000_000) / 1_000_000_000, (nanos + 1_000_000) % 1_000_000_000, "1 ms"),
        (secs + 1, nanos, "1 s"),
    ];
    for (s, n, what) in nb {
        set(s, n);
        let (e2, _) = etag_at(&path);
        if e2 == e1 {
            out.push(format!("modification time changed by {what} (to {s}.{n:09}) but the ETag stayed {:?}", e1.as_ref().map(|t| String::from_utf8_lossy(t).to_string())));
        }
    }
    {
        use std::io::Write;
        let mut f = std::fs::OpenOptions::new().append(true).open(&path).expect("append");
        f.write_all(b"x").expect("append");
    }
    set(secs, nanos);
    let (e3, _) = etag_at(&path);
    if e3 == e1 {
        out.push("length changed (same modification time) but the ETag stayed the same".into());
    }
    let _ = std::fs::remove_dir_all(&dir);
    out
}
