//! Replays `FsDir::get` scenarios against the real build on a real temporary directory (C19).
//!
//! {"kind":"dir_path","path":[bytes]}: the base directory holds, where the operating system lets
//! them be created, the directories and the file the path names; a file `secret` sits next to
//! (outside) the base. Oracle: a path with a NUL, a leading '/' or a `..` segment must be refused;
//! every other path must open exactly what `std::fs::File::open(base/path)` opens (same device
//! and inode) or fail with the same error kind.
//! {"kind":"dir_node","auto_gzip","is_gzipped","stale_ce","stale_vary"}: `f` (and `f.gz` when the
//! substituted state is wanted) under the base, requested with `Accept-Encoding: gzip`; the node's
//! encoding(), encoding_varies() and add_encoding_headers() are judged against the property text.
use http::header::{self, HeaderMap, HeaderValue};
use serde_json::{json, Value};
use std::ffi::OsStr;
use std::os::unix::ffi::OsStrExt;
use std::os::unix::fs::MetadataExt;

fn bad_path(b: &[u8]) -> bool {
    b.contains(&0) || b.first() == Some(&b'/') || b.split(|c| *c == b'/').any(|s| s == b"..")
}

fn rt() -> tokio::runtime::Runtime {
    tokio::runtime::Builder::new_multi_thread().worker_threads(1).build().expect("runtime")
}

pub fn run_path(sc: &Value) -> Value {
    let p: Vec<u8> = sc["path"].as_array().map(|v| v.iter().map(|x| x.as_u64().unwrap_or(0) as u8).collect()).unwrap_or_default();
    if p.iter().any(|c| *c >= 0x80) {
        return json!({"error": "path is not ASCII (FsDir::get takes &str)"});
    }
    let top = std::env::temp_dir().join(format!("hs-replay-dir-{}", std::process::id()));
    let _ = std::fs::remove_dir_all(&top);
    let base = top.join("outer").join("base");
    std::fs::create_dir_all(&base).expect("mkdir");
    std::fs::write(top.join("outer").join("secret"), b"outside the base").expect("secret");
    std::fs::write(top.join("secret"), b"outside the base").expect("secret");
    let bad = bad_path(&p);
    if bad && p.first() != Some(&b'/') {
        // make the traversal succeed if validation lets it through: every ordinary segment
        // becomes a directory (a NUL ends the name, as it does for openat)
        let mut cur = base.clone();
        let upto = p.iter().position(|c| *c == 0).unwrap_or(p.len());
        for seg in p[..upto].split(|c| *c == b'/') {
            if seg == b".." {
                cur = cur.parent().map(|x| x.to_path_buf()).unwrap_or(cur);
            } else if !(seg.is_empty() || seg == b".") {
                cur = cur.join(OsStr::from_bytes(seg));
                let _ = std::fs::create_dir_all(&cur);
            }
        }
    }
    if !bad {
        // materialise what the path names (best effort: "", ".", "a/" etc. cannot be files)
        let full = base.join(OsStr::from_bytes(&p));
        if let Some(parent) = full.parent() {
            let _ = std::fs::create_dir_all(parent);
        }
        let _ = std::fs::write(&full, b"inside");
    }
    let s = String::from_utf8(p.clone()).expect("ascii");
    let base2 = base.clone();
    let res = std::panic::catch_unwind(std::panic::AssertUnwindSafe(|| {
        rt().block_on(async move {
            let d = http_serve::dir::FsDir::builder().auto_gzip(false).for_path(&base2).expect("open base");
            match d.get(&s, &HeaderMap::new()).await {
                Ok(n) => Ok((n.metadata().dev(), n.metadata().ino())),
                Err(e) => Err(e.kind()),
            }
        })
    }));
    let mut violations: Vec<Value> = Vec::new();
    let shown = String::from_utf8_lossy(&p).replace('\0', "\\0");
    match res {
        Err(_) => violations.push(json!({"properties": ["C19", "C13"], "what": format!("FsDir::get panicked on path {shown:?}")})),
        Ok(got) => {
            if bad {
                if got.is_ok() {
                    violations.push(json!({"property": "C19", "what": format!("path {shown:?} (NUL / absolute / `..` segment) was not refused: FsDir::get opened {got:?}")}));
                } else if p.first() == Some(&b'/') && got != Err(std::io::ErrorKind::InvalidInput) {
                    // an absolute path cannot be materialised here; the only refusal that does not
                    // depend on what happens to exist under / is the validation error
                    violations.push(json!({"property": "C19", "what": format!("absolute path {shown:?} was handed to the file system ({got:?}) instead of being refused")}));
                }
            } else {
                // POSIX: an empty pathname names nothing (ENOENT), whereas `base.join("")` is the base itself
                let want = if p.is_empty() { Err(std::io::ErrorKind::NotFound) } else {
                    std::fs::File::open(base.join(OsStr::from_bytes(&p))).and_then(|f| f.metadata()).map(|m| (m.dev(), m.ino())).map_err(|e| e.kind())
                };
                if got != want {
                    violations.push(json!({"property": "C19", "what": format!("path {shown:?} has no NUL, leading '/' or `..` segment: FsDir::get gave {got:?}, opening base/path gives {want:?}")}));
                }
            }
        }
    }
    let _ = std::fs::remove_dir_all(&top);
    json!({"observation": {"path": shown, "bad": bad}, "violations": violations})
}

pub fn run_node(sc: &Value) -> Value {
    let auto_gzip = sc["auto_gzip"].as_bool().unwrap_or(false);
    let is_gzipped = sc["is_gzipped"].as_bool().unwrap_or(false);
    let stale_ce = sc["stale_ce"].as_bool().unwrap_or(false);
    let stale_vary = sc["stale_vary"].as_bool().unwrap_or(false);
    if is_gzipped && !auto_gzip {
        return json!({"error": "a substituted node without automatic gzip is not reachable through FsDir::get"});
    }
    let top = std::env::temp_dir().join(format!("hs-replay-node-{}", std::process::id()));
    let _ = std::fs::remove_dir_all(&top);
    std::fs::create_dir_all(&top).expect("mkdir");
    std::fs::write(top.join("f"), b"plain").expect("f");
    if is_gzipped {
        std::fs::write(top.join("f.gz"), b"gz").expect("f.gz");
    }
    let top2 = top.clone();
    let res = std::panic::catch_unwind(std::panic::AssertUnwindSafe(|| {
        rt().block_on(async move {
            let d = http_serve::dir::FsDir::builder().auto_gzip(auto_gzip).for_path(&top2).expect("open base");
            let mut req = HeaderMap::new();
            req.insert(header::ACCEPT_ENCODING, HeaderValue::from_static("gzip"));
            let n = d.get("f", &req).await.expect("get f");
            let mut h = HeaderMap::new();
            if stale_ce {
                h.insert(header::CONTENT_ENCODING, HeaderValue::from_static("br"));
            }
            if stale_vary {
                h.insert(header::VARY, HeaderValue::from_static("cookie"));
            }
            let enc = n.encoding().map(|s| s.to_string());
            let varies = n.encoding_varies();
            n.add_encoding_headers(&mut h);
            let ce: Vec<String> = h.get_all(header::CONTENT_ENCODING).iter().map(|v| String::from_utf8_lossy(v.as_bytes()).to_string()).collect();
            let vary: Vec<String> = h.get_all(header::VARY).iter().map(|v| String::from_utf8_lossy(v.as_bytes()).to_string()).collect();
            let size = n.metadata().len();
            (enc, varies, ce, vary, size)
        })
    }));
    let _ = std::fs::remove_dir_all(&top);
    let mut violations: Vec<Value> = Vec::new();
    let mut add = |w: String| violations.push(json!({"property": "C19", "what": w}));
    match res {
        Err(_) => add("FsDir::get / Node panicked".into()),
        Ok((enc, varies, ce, vary, size)) => {
            let got_gz = size == 2;
            if got_gz != is_gzipped {
                add(format!("the .gz sibling was {} although it {}", if got_gz { "opened" } else { "not opened" }, if is_gzipped { "exists, automatic gzip is on and the client prefers gzip" } else { "does not exist" }));
            }
            let want_enc = if got_gz { Some("gzip".to_string()) } else { None };
            if enc != want_enc {
                add(format!("encoding() = {enc:?}, expected {want_enc:?}"));
            }
            if varies != auto_gzip {
                add(format!("encoding_varies() = {varies}, automatic gzip is {auto_gzip}"));
            }
            let want_ce: Vec<String> = if got_gz { vec!["gzip".into()] } else if stale_ce { vec!["br".into()] } else { vec![] };
            if ce != want_ce {
                add(format!("add_encoding_headers: Content-Encoding = {ce:?}, expected {want_ce:?}"));
            }
            let want_vary: Vec<String> = if auto_gzip { vec!["accept-encoding".into()] } else if stale_vary { vec!["cookie".into()] } else { vec![] };
            if vary != want_vary {
                add(format!("add_encoding_headers: Vary = {vary:?}, expected {want_vary:?}"));
            }
        }
    }
    json!({"observation": {"auto_gzip": auto_gzip, "is_gzipped": is_gzipped}, "violations": violations})
}
