//! Replays `serve()` scenarios against the real build and judges them (C01-C07, C12-C15, C20).
use crate::oracle::{self, Precond, Spec, TagCond};
use crate::textparse::{parse_range, parse_tag_list, RangeText, TagList};
use bytes::Buf;
use http::header::{self, HeaderMap, HeaderName, HeaderValue};
use http_body::Body as _;
use serde_json::{json, Value};
use std::ops::Range;
use std::panic::{catch_unwind, AssertUnwindSafe};
use std::pin::Pin;
use std::sync::{Arc, Mutex};
use std::task::{Context, Poll};
use std::time::{Duration, SystemTime, UNIX_EPOCH};

pub enum RChunk {
    Ent { start: u64, len: u64 },
    Lit(Vec<u8>),
    Stat(&'static [u8]),
}
impl Buf for RChunk {
    fn remaining(&self) -> usize {
        match self {
            RChunk::Ent { len, .. } => *len as usize,
            RChunk::Lit(v) => v.len(),
            RChunk::Stat(s) => s.len(),
        }
    }
    fn chunk(&self) -> &[u8] {
        match self {
            RChunk::Ent { .. } => &[],
            RChunk::Lit(v) => &v[..],
            RChunk::Stat(s) => s,
        }
    }
    fn advance(&mut self, _cnt: usize) {}
}
impl From<Vec<u8>> for RChunk {
    fn from(v: Vec<u8>) -> Self {
        RChunk::Lit(v)
    }
}
impl From<&'static [u8]> for RChunk {
    fn from(v: &'static [u8]) -> Self {
        RChunk::Stat(v)
    }
}

pub struct RErr {
    pub injected: Option<String>,
}
impl From<http_serve::BoxError> for RErr {
    fn from(b: http_serve::BoxError) -> Self {
        RErr { injected: Some(b.to_string()) }
    }
}

#[derive(Clone, Copy, Debug)]
pub struct Ev {
    pub kind: u8, // 0 pending 1 chunk 2 err 3 end
    pub n: u64,
}

#[derive(Clone)]
pub struct Shared {
    pub scripts: Vec<Vec<Ev>>,
    pub faulty: bool,
    pub calls: Arc<Mutex<Vec<(u64, u64)>>>,
}

struct ScriptStream {
    pos: u64,
    end: u64,
    script: Vec<Ev>,
    i: usize,
    finished: bool,
    faulty: bool,
}
impl futures_core::Stream for ScriptStream {
    type Item = Result<RChunk, RErr>;
    // Same semantics as harness/hcommon.rs::ScriptStream.
    fn poll_next(mut self: Pin<&mut Self>, _cx: &mut Context<'_>) -> Poll<Option<Self::Item>> {
        if self.finished {
            return Poll::Ready(None);
        }
        let faulty = self.faulty;
        let remaining = self.end.wrapping_sub(self.pos);
        if !faulty && remaining == 0 {
            self.finished = true;
            return Poll::Ready(None);
        }
        if self.i < self.script.len() {
            let ev = self.script[self.i];
            self.i += 1;
            match ev.kind {
                0 => return Poll::Pending,
                2 => {
                    self.finished = true;
                    return Poll::Ready(Some(Err(RErr { injected: None })));
                }
                3 => {
                    self.finished = true;
                    return Poll::Ready(None);
                }
                _ => {
                    let n = if faulty || ev.n <= remaining { ev.n } else { remaining };
                    let start = self.pos;
                    self.pos = self.pos.wrapping_add(n);
                    return Poll::Ready(Some(Ok(RChunk::Ent { start, len: n })));
                }
            }
        }
        if faulty || remaining == 0 {
            self.finished = true;
            return Poll::Ready(None);
        }
        let start = self.pos;
        self.pos = self.end;
        Poll::Ready(Some(Ok(RChunk::Ent { start, len: remaining })))
    }
}

pub struct REnt {
    pub len: u64,
    pub etag: Option<Vec<u8>>,
    pub mtime: Option<SystemTime>,
    pub headers: Vec<(String, String)>,
    pub sh: Shared,
}
impl http_serve::Entity for REnt {
    type Error = RErr;
    type Data = RChunk;
    fn len(&self) -> u64 {
        self.len
    }
    fn get_range(
        &self,
        range: Range<u64>,
    ) -> Pin<Box<dyn futures_core::Stream<Item = Result<RChunk, RErr>> + Send + Sync>> {
        let call = {
            let mut c = self.sh.calls.lock().unwrap();
            c.push((range.start, range.end));
            c.len() - 1
        };
        let script = self.sh.scripts.get(call).cloned().unwrap_or_default();
        Box::pin(ScriptStream {
            pos: range.start,
            end: range.end,
            script,
            i: 0,
            finished: false,
            faulty: self.sh.faulty,
        })
    }
    fn add_headers(&self, h: &mut HeaderMap) {
        // a name the entity lists more than once is a repeated header field (append)
        for (i, (k, v)) in self.headers.iter().enumerate() {
            let name = HeaderName::from_bytes(k.as_bytes()).unwrap();
            let val = HeaderValue::from_str(v).unwrap();
            if self.headers[..i].iter().any(|(k2, _)| k2.eq_ignore_ascii_case(k)) {
                h.append(name, val);
            } else {
                h.insert(name, val);
            }
        }
    }
    fn etag(&self) -> Option<HeaderValue> {
        self.etag.as_ref().map(|b| HeaderValue::from_bytes(b).unwrap())
    }
    fn last_modified(&self) -> Option<SystemTime> {
        self.mtime
    }
}

fn u64_of(v: &Value) -> Option<u64> {
    if let Some(n) = v.as_u64() {
        return Some(n);
    }
    v.as_str().and_then(|s| s.parse().ok())
}

fn bytes_of(v: &Value) -> Option<Vec<u8>> {
    match v {
        Value::String(s) => Some(s.as_bytes().to_vec()),
        Value::Array(a) => Some(a.iter().map(|x| x.as_u64().unwrap() as u8).collect()),
        _ => None,
    }
}

#[derive(Clone)]
pub struct Scn {
    pub method: String,
    pub headers: Vec<(String, Vec<u8>)>,
    pub len: u64,
    pub etag: Option<Vec<u8>>,
    pub mtime: Option<SystemTime>,
    pub ent_headers: Vec<(String, String)>,
    pub scripts: Vec<Vec<Ev>>,
    pub faulty: bool,
    pub polls: usize,
}

/// Dates in a scenario are absolute seconds on the *scenario's* clock (`now_secs`); they are
/// shifted by a whole number of seconds onto the real clock, which preserves every order
/// relation and every sub-second part.
fn parse_scenario(sc: &Value) -> Result<Scn, String> {
    let real_now = SystemTime::now().duration_since(UNIX_EPOCH).unwrap().as_secs() as i128;
    let delta: i128 = match sc.get("now_secs").and_then(u64_of) {
        Some(n) => real_now - n as i128,
        None => 0,
    };
    let shift = |secs: u64| -> Result<u64, String> {
        let v = secs as i128 + delta;
        if v < 0 || v > 253402300799 {
            return Err("instant not representable after shifting to the real clock".into());
        }
        Ok(v as u64)
    };
    let method = sc["method"].as_str().unwrap_or("GET").to_string();
    let mut headers = Vec::new();
    if let Some(hs) = sc["headers"].as_array() {
        for h in hs {
            let name = h[0].as_str().ok_or("header name")?.to_string();
            let val = if let Some(o) = h[1].as_object() {
                let secs = o.get("http_date").and_then(u64_of).ok_or("http_date")?;
                httpdate::fmt_http_date(UNIX_EPOCH + Duration::from_secs(shift(secs)?)).into_bytes()
            } else {
                bytes_of(&h[1]).ok_or("header value")?
            };
            headers.push((name, val));
        }
    }
    let e = &sc["entity"];
    let mtime = match e.get("mtime") {
        Some(Value::Object(o)) => {
            let secs = o.get("secs").and_then(u64_of).ok_or("mtime.secs")?;
            let nanos = o.get("nanos").and_then(u64_of).unwrap_or(0) as u32;
            Some(UNIX_EPOCH + Duration::new(shift(secs)?, nanos))
        }
        _ => None,
    };
    let mut scripts = Vec::new();
    if let Some(ss) = sc["scripts"].as_array() {
        for s in ss {
            let mut evs = Vec::new();
            for ev in s.as_array().ok_or("script")? {
                let kind = match ev["k"].as_str().unwrap_or("") {
                    "pending" => 0,
                    "chunk" => 1,
                    "err" => 2,
                    "end" => 3,
                    _ => return Err("event kind".into()),
                };
                evs.push(Ev { kind, n: ev.get("n").and_then(u64_of).unwrap_or(0) });
            }
            scripts.push(evs);
        }
    }
    Ok(Scn {
        method,
        headers,
        len: u64_of(&e["len"]).ok_or("entity.len")?,
        etag: e.get("etag").and_then(bytes_of),
        mtime,
        ent_headers: e
            .get("headers")
            .and_then(|h| h.as_array())
            .map(|a| {
                a.iter()
                    .map(|p| (p[0].as_str().unwrap().to_string(), p[1].as_str().unwrap().to_string()))
                    .collect()
            })
            .unwrap_or_default(),
        scripts,
        faulty: sc["faulty"].as_bool().unwrap_or(false),
        polls: sc["polls"].as_u64().unwrap_or(12) as usize,
    })
}

#[derive(Clone, Debug)]
pub enum PollObs {
    Ent(u64, u64),
    Lit(Vec<u8>),
    Err(Option<String>),
    End,
    Pending,
    Panic(String),
}

#[derive(Clone, Debug)]
pub struct Step {
    pub hint: (u64, Option<u64>),
    pub eos: bool,
    pub res: PollObs,
}

#[derive(Clone, Debug, Default)]
pub struct Obs {
    pub serve_panic: Option<String>,
    pub status: u16,
    pub headers: Vec<(String, Vec<u8>)>,
    pub steps: Vec<Step>,
    pub calls: Vec<(u64, u64)>,
    pub t_before: u64,
    pub t_after: u64,
}

fn panic_text(e: Box<dyn std::any::Any + Send>) -> String {
    if let Some(s) = e.downcast_ref::<&str>() {
        s.to_string()
    } else if let Some(s) = e.downcast_ref::<String>() {
        s.clone()
    } else {
        "panic".into()
    }
}

pub fn execute(s: &Scn, method: &str) -> Obs {
    let calls = Arc::new(Mutex::new(Vec::new()));
    let ent = REnt {
        len: s.len,
        etag: s.etag.clone(),
        mtime: s.mtime,
        headers: s.ent_headers.clone(),
        sh: Shared { scripts: s.scripts.clone(), faulty: s.faulty, calls: calls.clone() },
    };
    let mut req = http::Request::new(());
    *req.method_mut() = http::Method::from_bytes(method.as_bytes()).unwrap();
    for (k, v) in &s.headers {
        req.headers_mut().append(
            HeaderName::from_bytes(k.as_bytes()).unwrap(),
            HeaderValue::from_bytes(v).unwrap(),
        );
    }
    let mut o = Obs::default();
    o.t_before = SystemTime::now().duration_since(UNIX_EPOCH).unwrap().as_secs();
    let r = catch_unwind(AssertUnwindSafe(|| http_serve::serve(ent, &req)));
    o.t_after = SystemTime::now().duration_since(UNIX_EPOCH).unwrap().as_secs();
    let resp = match r {
        Ok(r) => r,
        Err(e) => {
            o.serve_panic = Some(panic_text(e));
            return o;
        }
    };
    o.status = resp.status().as_u16();
    for (k, v) in resp.headers() {
        o.headers.push((k.as_str().to_string(), v.as_bytes().to_vec()));
    }
    let body = resp.into_body();
    let mut body = Box::pin(body);
    let waker = std::task::Waker::noop();
    let mut cx = Context::from_waker(waker);
    for _ in 0..s.polls {
        let step = catch_unwind(AssertUnwindSafe(|| {
            let h = body.size_hint();
            let eos = body.is_end_stream();
            let res = match body.as_mut().poll_frame(&mut cx) {
                Poll::Ready(Some(Ok(f))) => match f.into_data() {
                    Ok(RChunk::Ent { start, len }) => PollObs::Ent(start, len),
                    Ok(RChunk::Lit(v)) => PollObs::Lit(v),
                    Ok(RChunk::Stat(s)) => PollObs::Lit(s.to_vec()),
                    Err(_) => PollObs::Lit(vec![]),
                },
                Poll::Ready(Some(Err(e))) => PollObs::Err(e.injected),
                Poll::Ready(None) => PollObs::End,
                Poll::Pending => PollObs::Pending,
            };
            Step { hint: (h.lower(), h.upper()), eos, res }
        }));
        match step {
            Ok(st) => o.steps.push(st),
            Err(e) => {
                o.steps.push(Step { hint: (0, None), eos: false, res: PollObs::Panic(panic_text(e)) });
                break;
            }
        }
    }
    o.calls = calls.lock().unwrap().clone();
    o
}

fn get<'a>(h: &'a [(String, Vec<u8>)], name: &str) -> Option<&'a [u8]> {
    h.iter().find(|(k, _)| k.eq_ignore_ascii_case(name)).map(|(_, v)| &v[..])
}
fn count(h: &[(String, Vec<u8>)], name: &str) -> usize {
    h.iter().filter(|(k, _)| k.eq_ignore_ascii_case(name)).count()
}

struct V(Vec<Value>);
impl V {
    /// `p` may name several properties separated by '/'.
    fn add(&mut self, p: &str, what: impl Into<String>) {
        let ps: Vec<&str> = p.split('/').collect();
        self.0.push(json!({"property": ps[0], "properties": ps, "what": what.into()}));
    }
}

fn parse_cr(b: &[u8]) -> Option<(u64, u64, u64)> {
    let s = std::str::from_utf8(b).ok()?;
    let s = s.strip_prefix("bytes ")?;
    let (r, t) = s.split_once('/')?;
    let (a, e) = r.split_once('-')?;
    let ok = |x: &str| !x.is_empty() && x.len() <= 20 && x.bytes().all(|c| c.is_ascii_digit());
    if !(ok(a) && ok(e) && ok(t)) {
        return None;
    }
    Some((a.parse().ok()?, e.parse().ok()?, t.parse().ok()?))
}
fn parse_dec(b: &[u8]) -> Option<u64> {
    let s = std::str::from_utf8(b).ok()?;
    if s.is_empty() || !s.bytes().all(|c| c.is_ascii_digit()) {
        return None;
    }
    s.parse().ok()
}

fn trunc_secs(t: SystemTime) -> u64 {
    t.duration_since(UNIX_EPOCH).map(|d| d.as_secs()).unwrap_or(0)
}

/// What the request should get, as far as the properties determine it.
pub enum Expect {
    Status(u16),
    /// complete representation
    Full,
    Single(u64, u64),
    Unsat,
    /// >= 2 satisfiable ranges (half-open), multipart or full
    Multi(Vec<(u64, u64)>),
    /// the properties do not determine the answer (malformed validators etc.)
    Unknown,
}

pub fn expectation(s: &Scn, method: &str) -> (Expect, /*if_range_present*/ bool) {
    let hdrs = &s.headers;
    if method != "GET" && method != "HEAD" {
        return (Expect::Status(405), false);
    }
    // repeated header lines: the property gives no rule for which line counts
    for n in ["range", "if-range", "if-match", "if-none-match", "if-modified-since", "if-unmodified-since"] {
        if count(hdrs, n) > 1 {
            return (Expect::Unknown, count(hdrs, "if-range") > 0);
        }
    }
    let if_range = get(hdrs, "if-range");
    let etag_ok = s.etag.as_ref().map(|t| oracle::is_entity_tag(t)).unwrap_or(true);
    if !etag_ok {
        return (Expect::Unknown, if_range.is_some());
    }
    // C04
    let mut cond = |name: &str, strong: bool| -> Option<TagCond> {
        match get(hdrs, name) {
            None => Some(TagCond::Absent),
            Some(v) => match parse_tag_list(v)? {
                TagList::Star => Some(TagCond::Star),
                TagList::Tags(tags) => {
                    let matched = match &s.etag {
                        None => false,
                        Some(e) => tags.iter().any(|t| {
                            if strong {
                                oracle::tags_strong_eq(t, e)
                            } else {
                                oracle::tags_weak_eq(t, e)
                            }
                        }),
                    };
                    Some(TagCond::List { matched })
                }
            },
        }
    };
    let im = cond("if-match", true);
    let inm = cond("if-none-match", false);
    let date = |name: &str| -> Option<Option<u64>> {
        match get(hdrs, name) {
            None => Some(None),
            Some(v) => {
                let t = std::str::from_utf8(v).ok()?;
                let d = httpdate::parse_http_date(t).ok()?;
                Some(Some(trunc_secs(d)))
            }
        }
    };
    let ius = date("if-unmodified-since");
    let ims = date("if-modified-since");
    let (Some(im), Some(inm), Some(ius), Some(ims)) = (im, inm, ius, ims) else {
        return (Expect::Unknown, if_range.is_some());
    };
    match oracle::precondition(im, ius, inm, ims, s.mtime.map(trunc_secs)) {
        Precond::Failed412 => return (Expect::Status(412), if_range.is_some()),
        Precond::NotModified304 => return (Expect::Status(304), if_range.is_some()),
        Precond::Continue => {}
    }
    // C05
    let mut range = get(hdrs, "range");
    if let Some(ir) = if_range {
        let honoured = match &s.etag {
            Some(e) => oracle::tags_strong_eq(ir, e) && oracle::is_entity_tag(ir),
            None => false,
        };
        if !honoured {
            range = None;
        }
    }
    let Some(r) = range else { return (Expect::Full, if_range.is_some()) };
    match parse_range(r) {
        RangeText::Ignored => (Expect::Full, if_range.is_some()),
        RangeText::Unjudged => (Expect::Unknown, if_range.is_some()),
        RangeText::Set(specs) => {
            if !specs.iter().all(|s| oracle::spec_parseable(*s)) || s.len == 0 {
                return (Expect::Unknown, if_range.is_some());
            }
            let rs: Vec<(u64, u64)> = specs.iter().filter_map(|sp| oracle::resolve_spec(*sp, s.len)).collect();
            match rs.len() {
                0 => (Expect::Unsat, if_range.is_some()),
                1 => (Expect::Single(rs[0].0, rs[0].1), if_range.is_some()),
                _ => (Expect::Multi(rs), if_range.is_some()),
            }
        }
    }
}

/// Splits the recorded steps into (frames before the first terminal event, terminal, rest).
fn judge_body(s: &Scn, o: &Obs, v: &mut V, announced: Option<u64>) -> (Vec<PollObs>, Option<PollObs>) {
    let mut frames = Vec::new();
    let mut terminal: Option<PollObs> = None;
    let mut total: u128 = 0;
    let mut said_eos = false;
    for (i, st) in o.steps.iter().enumerate() {
        if let PollObs::Panic(p) = &st.res {
            if terminal.is_some() {
                v.add("C20/C13", format!("polling the terminated body again panicked at poll {i}: {p}"));
            } else {
                v.add("C13", format!("draining the body panicked at poll {i}: {p}"));
            }
            break;
        }
        // C12: hints
        if terminal.is_none() || matches!(terminal, Some(PollObs::End)) {
            if let Some(a) = announced {
                let owed = (a as u128).saturating_sub(total);
                let errored = false;
                if !errored && !(st.hint.0 as u128 == owed && st.hint.1.map(|u| u as u128) == Some(owed)) && !s.faulty {
                    v.add("C12", format!("size hint {:?} at poll {i} but {owed} bytes are still owed", st.hint));
                }
            }
        }
        if st.eos {
            said_eos = true;
        }
        match &st.res {
            PollObs::Ent(_, n) => {
                total += *n as u128;
            }
            PollObs::Lit(b) => {
                total += b.len() as u128;
            }
            _ => {}
        }
        let is_data = matches!(st.res, PollObs::Ent(..) | PollObs::Lit(_));
        if is_data && terminal.is_some() {
            v.add("C20", format!("data frame at poll {i} after the body had terminated"));
        }
        if said_eos && !st.eos {
            // is_end_stream went back to false: only a violation if data/err follows (below)
        }
        if said_eos && (is_data || matches!(st.res, PollObs::Err(_))) && !s.faulty {
            v.add("C12", format!("body said is_end_stream() and then produced data or an error at poll {i}"));
        }
        if terminal.is_none() {
            match &st.res {
                PollObs::End | PollObs::Err(_) => terminal = Some(st.res.clone()),
                PollObs::Pending => {}
                _ => frames.push(st.res.clone()),
            }
        }
        if let Some(a) = announced {
            if total > a as u128 {
                v.add("C01", format!("body delivered {total} bytes, more than the {a} announced"));
                break;
            }
        }
    }
    if let (Some(PollObs::End), Some(a)) = (&terminal, announced) {
        let sum: u128 = frames
            .iter()
            .map(|f| match f {
                PollObs::Ent(_, n) => *n as u128,
                PollObs::Lit(b) => b.len() as u128,
                _ => 0,
            })
            .sum();
        if sum != a as u128 {
            v.add(
                if s.faulty { "C07" } else { "C01" },
                format!("body ended cleanly after {sum} bytes but announced {a}"),
            );
        }
    }
    (frames, terminal)
}

fn check_contiguous(frames: &[PollObs], a: u64, b: u64, clean_end: bool, v: &mut V) {
    let mut pos = a as u128;
    for f in frames {
        match f {
            PollObs::Ent(st, n) => {
                if *st as u128 != pos {
                    v.add("C02", format!("entity bytes out of place: frame starts at {st}, expected {pos}"));
                    return;
                }
                pos += *n as u128;
            }
            PollObs::Lit(_) => {
                v.add("C02", "non-entity bytes in a 200/206 body");
                return;
            }
            _ => {}
        }
    }
    if clean_end && pos != b as u128 {
        v.add("C02", format!("body covers {a}..{pos}, announced {a}..{b}"));
    }
}

fn judge_multipart(s: &Scn, o: &Obs, ranges: &[(u64, u64)], if_range: bool, frames: &[PollObs], clean_end: bool, v: &mut V) {
    let ct = get(&o.headers, "content-type").unwrap_or(b"");
    let ct_s = String::from_utf8_lossy(ct).to_string();
    let lower = ct_s.to_ascii_lowercase();
    if !lower.starts_with("multipart/byteranges") {
        v.add("C06", format!("multi-range 206 with Content-Type {ct_s:?}"));
        return;
    }
    let Some(bpos) = lower.find("boundary=") else {
        v.add("C06", "multipart/byteranges without boundary parameter");
        return;
    };
    let boundary = ct_s[bpos + 9..].trim_matches('"').to_string();
    if count(&o.headers, "content-range") != 0 {
        v.add("C06", "top-level Content-Range on a multipart response");
    }
    if !clean_end {
        return;
    }
    // flatten: sequence of items Lit(bytes) | Ent(start,len); merge adjacent literals
    let mut items: Vec<PollObs> = Vec::new();
    for f in frames {
        match (items.last_mut(), f) {
            (Some(PollObs::Lit(a)), PollObs::Lit(b)) => a.extend_from_slice(b),
            _ => items.push(f.clone()),
        }
    }
    let mut it = items.into_iter().peekable();
    for (idx, (a, b)) in ranges.iter().enumerate() {
        let Some(PollObs::Lit(head)) = it.next() else {
            v.add("C06", format!("part {idx}: missing delimiter/headers"));
            return;
        };
        let text = String::from_utf8_lossy(&head).to_string();
        let t = text.strip_prefix("\r\n").unwrap_or(&text);
        let Some(t) = t.strip_prefix(&format!("--{boundary}\r\n")) else {
            v.add("C06", format!("part {idx}: does not start with the boundary delimiter line: {text:?}"));
            return;
        };
        let Some(hdr_block) = t.strip_suffix("\r\n\r\n").or_else(|| if t == "\r\n" { Some("") } else { None }) else {
            v.add("C06", format!("part {idx}: headers not terminated by a blank line: {text:?}"));
            return;
        };
        let mut got_cr = None;
        let mut others: Vec<(String, String)> = Vec::new();
        for line in hdr_block.split("\r\n").filter(|l| !l.is_empty()) {
            let Some((k, val)) = line.split_once(':') else {
                v.add("C06", format!("part {idx}: malformed header line {line:?}"));
                return;
            };
            let val = val.trim();
            if k.eq_ignore_ascii_case("content-range") {
                got_cr = parse_cr(val.as_bytes());
            } else {
                others.push((k.to_ascii_lowercase(), val.to_string()));
            }
        }
        if got_cr != Some((*a, *b - 1, s.len)) {
            v.add("C03/C06", format!("part {idx}: Content-Range {got_cr:?}, expected bytes {}-{}/{} (parts must be the requested ranges in request order)", a, b - 1, s.len));
            return;
        }
        let mut want: Vec<(String, String)> = if if_range {
            vec![]
        } else {
            s.ent_headers.iter().map(|(k, v)| (k.to_ascii_lowercase(), v.clone())).collect()
        };
        want.sort();
        others.sort();
        if want != others {
            v.add("C06", format!("part {idx}: entity headers {others:?}, expected {want:?}"));
            return;
        }
        // entity bytes a..b
        let mut pos = *a as u128;
        while let Some(PollObs::Ent(st, n)) = it.peek() {
            if *st as u128 != pos {
                v.add("C06", format!("part {idx}: entity bytes out of place at {st}, expected {pos}"));
                return;
            }
            pos += *n as u128;
            it.next();
        }
        if pos != *b as u128 {
            v.add("C06", format!("part {idx}: covers {a}..{pos}, expected {a}..{b}"));
            return;
        }
    }
    match it.next() {
        Some(PollObs::Lit(tr)) => {
            let t = String::from_utf8_lossy(&tr).to_string();
            let want = format!("\r\n--{boundary}--\r\n");
            if t != want && t != want.trim_end() {
                v.add("C06", format!("closing delimiter is {t:?}"));
            }
        }
        other => v.add("C06", format!("missing closing delimiter, got {other:?}")),
    }
    if it.next().is_some() {
        v.add("C06", "data after the closing delimiter");
    }
}

pub fn judge(s: &Scn, method: &str, o: &Obs) -> Vec<Value> {
    let mut v = V(Vec::new());
    if let Some(p) = &o.serve_panic {
        let tag = if get(&s.headers, "range").is_some() { "C13/C03" } else { "C13" };
        v.add(tag, format!("serve() panicked: {p}"));
        return v.0;
    }
    if ![200, 206, 304, 400, 405, 412, 413, 416].contains(&o.status) {
        v.add("C13", format!("status {} outside the documented set", o.status));
    }
    let is_get_head = method == "GET" || method == "HEAD";
    if !is_get_head {
        if o.status != 405 {
            v.add("C13", format!("method {method} answered {}", o.status));
        }
        let allow = get(&o.headers, "allow").map(|a| String::from_utf8_lossy(a).to_ascii_lowercase()).unwrap_or_default();
        let toks: Vec<&str> = allow.split(',').map(|t| t.trim()).collect();
        if !(toks.contains(&"get") && toks.contains(&"head")) {
            v.add("C13", format!("405 with Allow {allow:?}"));
        }
        if !o.calls.is_empty() {
            v.add("C13", "entity data read for a 405");
        }
    }
    let cl = get(&o.headers, "content-length").and_then(parse_dec);
    let announced: Option<u64> = if o.status == 200 || o.status == 206 {
        if count(&o.headers, "content-length") != 1 || cl.is_none() {
            v.add("C01", format!("{} without exactly one well-formed Content-Length", o.status));
        }
        if method == "HEAD" { Some(0) } else { cl }
    } else {
        // exact hint must equal what is delivered
        o.steps.first().and_then(|st| if st.hint.1 == Some(st.hint.0) { Some(st.hint.0) } else { None })
    };
    if !(o.status == 200 || o.status == 206) {
        match o.steps.first() {
            Some(st) if st.hint.1 != Some(st.hint.0) => v.add("C01", format!("status {} body without exact size hint", o.status)),
            _ => {}
        }
    }
    let (frames, terminal) = judge_body(s, o, &mut v, announced);
    let clean_end = matches!(terminal, Some(PollObs::End));

    // C14 common headers
    if [200, 206, 304, 412, 416].contains(&o.status) {
        if get(&o.headers, "accept-ranges") != Some(b"bytes") || count(&o.headers, "accept-ranges") != 1 {
            v.add("C14", "Accept-Ranges: bytes missing");
        }
        if get(&o.headers, "etag").map(|e| e.to_vec()) != s.etag || count(&o.headers, "etag") > 1 {
            v.add("C14", "ETag not the entity's");
        }
        match s.mtime {
            Some(m) => {
                let d = get(&o.headers, "date").and_then(|d| std::str::from_utf8(d).ok()).and_then(|d| httpdate::parse_http_date(d).ok());
                let lm = get(&o.headers, "last-modified").and_then(|d| std::str::from_utf8(d).ok()).and_then(|d| httpdate::parse_http_date(d).ok());
                match (d, lm) {
                    (Some(d), Some(lm)) => {
                        let (d, lm) = (trunc_secs(d), trunc_secs(lm));
                        if lm > d {
                            v.add("C14", "Last-Modified exceeds Date");
                        }
                        if d < o.t_before || d > o.t_after {
                            v.add("C14", "Date is not the current time");
                        }
                        let ms = trunc_secs(m);
                        if ms < o.t_before && lm != ms {
                            v.add("C14", format!("Last-Modified {lm} is not the modification time {ms} truncated to the second"));
                        }
                    }
                    _ => v.add("C14", "Date/Last-Modified missing or unparseable"),
                }
            }
            None => {
                if count(&o.headers, "last-modified") != 0 {
                    v.add("C14", "Last-Modified invented");
                }
            }
        }
    }

    let (exp, if_range) = expectation(s, method);
    let want_ent_hdrs = |present: bool, v: &mut V, p: &str| {
        for (i, (k, _)) in s.ent_headers.iter().enumerate() {
            if s.ent_headers[..i].iter().any(|(k2, _)| k2.eq_ignore_ascii_case(k)) {
                continue;
            }
            // every value the entity supplies for this name, in order
            let want: Vec<&[u8]> = s.ent_headers.iter().filter(|(k2, _)| k2.eq_ignore_ascii_case(k)).map(|(_, v)| v.as_bytes()).collect();
            let got: Vec<&[u8]> = o.headers.iter().filter(|(k2, _)| k2.eq_ignore_ascii_case(k)).map(|(_, v)| &v[..]).collect();
            if present && got != want {
                v.add(p, format!("entity header {k}: {} of {} values carried on {}", got.len(), want.len(), o.status));
            }
            if !present && !got.is_empty() {
                v.add(p, format!("entity header {k} present on {}", o.status));
            }
        }
    };
    let full = |v: &mut V, p: &str| {
        if o.status != 200 {
            v.add(p, format!("expected the complete representation (200), got {}", o.status));
            return;
        }
        if count(&o.headers, "content-range") != 0 {
            v.add(p, "Content-Range on a 200");
        }
        if cl != Some(s.len) {
            v.add("C01", format!("Content-Length {cl:?} on a 200 of a {}-byte entity", s.len));
        }
        want_ent_hdrs(true, v, "C14");
        if method == "GET" {
            check_contiguous(&frames, 0, s.len, clean_end, v);
            if !s.faulty && o.calls != vec![(0, s.len)] {
                v.add("C02", format!("get_range calls {:?} for a complete 200", o.calls));
            }
        }
    };
    let single = |a: u64, b: u64, v: &mut V| {
        if o.status != 206 {
            v.add("C03", format!("expected 206 of bytes {a}-{}, got {}", b - 1, o.status));
            // C02: whatever the status is, a 200 must carry the complete entity
            if o.status == 200 && method == "GET" {
                if cl != Some(s.len) {
                    v.add("C02", format!("200 with Content-Length {cl:?} for an entity of {} bytes (not the complete representation)", s.len));
                }
                check_contiguous(&frames, 0, s.len, clean_end, v);
                if !s.faulty && o.calls != vec![(0, s.len)] {
                    v.add("C02", format!("200 whose body is entity bytes {:?}, not the complete entity", o.calls));
                }
            }
            return;
        }
        let cr = get(&o.headers, "content-range").and_then(parse_cr);
        if cr != Some((a, b - 1, s.len)) || count(&o.headers, "content-range") != 1 {
            v.add("C02", format!("Content-Range {cr:?}, expected bytes {a}-{}/{}", b - 1, s.len));
        }
        if cl != Some(b - a) {
            v.add("C01", format!("Content-Length {cl:?} for a {}-byte range", b - a));
        }
        want_ent_hdrs(!if_range, v, if if_range { "C05" } else { "C14" });
        if method == "GET" {
            check_contiguous(&frames, a, b, clean_end, v);
            if !s.faulty && o.calls != vec![(a, b)] {
                v.add("C02", format!("get_range calls {:?} for range {a}..{b}", o.calls));
            }
        }
    };
    // C14: echoing the served Last-Modified (modification time truncated to the second, when it
    // is not in the future) gets the cache-friendly answer
    if let Some(m) = s.mtime {
        let trunc = m.duration_since(UNIX_EPOCH).map(|d| d.as_secs()).unwrap_or(0);
        let served = httpdate::fmt_http_date(UNIX_EPOCH + std::time::Duration::from_secs(trunc));
        let in_past = m <= SystemTime::now();
        if in_past && (method == "GET" || method == "HEAD") {
            if get(&s.headers, "if-match").is_none() && get(&s.headers, "if-unmodified-since") == Some(served.as_bytes()) && o.status == 412 {
                v.add("C14", "If-Unmodified-Since with the served Last-Modified answered 412");
            }
            if get(&s.headers, "if-none-match").is_none() && get(&s.headers, "if-match").is_none() && get(&s.headers, "if-unmodified-since").is_none()
                && get(&s.headers, "if-modified-since") == Some(served.as_bytes()) && o.status != 304
            {
                v.add("C14", format!("If-Modified-Since with the served Last-Modified answered {}, not 304", o.status));
            }
        }
    }
    let exp = match exp {
        Expect::Full | Expect::Unsat | Expect::Single(..) | Expect::Multi(_)
            if o.status == 412 || o.status == 304 || o.status == 400 =>
        {
            v.add("C04", format!("status {} although no precondition fails / validators are well-formed", o.status));
            Expect::Unknown
        }
        e => e,
    };
    match exp {
        Expect::Unknown => {}
        Expect::Status(c) => {
            if o.status != c {
                let p = if c == 405 { "C13" } else { "C04" };
                v.add(p, format!("expected status {c}, got {}", o.status));
            }
            if c == 304 || c == 412 {
                want_ent_hdrs(false, &mut v, "C14");
                if !o.calls.is_empty() {
                    v.add("C15", "entity data read for a 304/412");
                }
            }
        }
        Expect::Full => {
            let p = if get(&s.headers, "if-range").is_some() { "C05" } else { "C03" };
            full(&mut v, p)
        }
        Expect::Unsat => {
            if o.status != 416 {
                v.add("C03", format!("range set selects nothing but status is {}", o.status));
            } else {
                let cr = get(&o.headers, "content-range").map(|c| String::from_utf8_lossy(c).to_string());
                if cr != Some(format!("bytes */{}", s.len)) {
                    v.add("C03", format!("416 with Content-Range {cr:?}"));
                }
                want_ent_hdrs(false, &mut v, "C14");
                if !o.calls.is_empty() {
                    v.add("C15", "entity data read for a 416");
                }
            }
        }
        Expect::Single(a, b) => single(a, b, &mut v),
        Expect::Multi(rs) => {
            let required = oracle::multipart_required(&rs, s.len);
            let forbidden = oracle::multipart_forbidden(&rs, s.len);
            match o.status {
                206 => {
                    if forbidden {
                        v.add("C03", "multipart although the ranges alone total the entity length or more");
                    }
                    judge_multipart(s, o, &rs, if_range, &frames, clean_end && method == "GET", &mut v);
                    if method == "GET" && !s.faulty && clean_end && o.calls != rs {
                        v.add("C06", format!("get_range calls {:?}, expected {:?}", o.calls, rs));
                    }
                }
                200 => {
                    if required {
                        v.add("C03", "complete 200 although ranges + 80 bytes each total under half the entity");
                    }
                    full(&mut v, "C03");
                }
                413 => {
                    // allowed only when the multipart body length does not fit in u64
                    let mut total: u128 = 9;
                    for (a, b) in &rs {
                        total += (b - a) as u128;
                        total += format!("\r\n--B\r\nContent-Range: bytes {}-{}/{}\r\n\r\n", a, b - 1, s.len).len() as u128;
                        if !if_range {
                            for (k, val) in &s.ent_headers {
                                total += (k.len() + val.len() + 4) as u128;
                            }
                        }
                    }
                    if total <= u64::MAX as u128 {
                        v.add("C03", "413 although the multipart body length fits in 64 bits");
                    }
                }
                c => v.add("C03", format!("multi-range request answered {c}")),
            }
        }
    }

    // HEAD: empty body, no entity reads (2xx/3xx/416)
    if method == "HEAD" && [200, 206, 304, 416].contains(&o.status) {
        if !frames.is_empty() || !clean_end {
            v.add("C15", "HEAD response body is not empty");
        }
        if !o.calls.is_empty() {
            v.add("C15", "HEAD asked the entity for body bytes");
        }
    }
    // C07: faulty streams must not produce a clean end unless every call delivered its range
    // (covered by the announced-length accounting above for single bodies; for multipart the
    // per-part accounting in judge_multipart). An entity stream that offers MORE than its range
    // must surface as an error to a consumer that polls past the announced length -- decided
    // from the script, not from what the body chose to poll.
    if s.faulty && method == "GET" {
        let ended_cleanly = o.steps.iter().find_map(|st| match &st.res {
            PollObs::End => Some(true),
            PollObs::Err(_) | PollObs::Panic(_) => Some(false),
            _ => None,
        });
        if ended_cleanly == Some(true) {
            for (ci, (a, b)) in o.calls.iter().enumerate() {
                let want = (*b - *a) as u128;
                let mut cum: u128 = 0;
                let mut overlong = false;
                if let Some(script) = s.scripts.get(ci) {
                    for ev in script {
                        match ev.kind {
                            1 => {
                                cum += ev.n as u128;
                                if cum > want {
                                    overlong = true;
                                    break;
                                }
                            }
                            2 | 3 => break,
                            _ => {}
                        }
                    }
                }
                if overlong {
                    v.add("C07", format!("entity stream for {a}..{b} offers more than its range, but the body ended cleanly instead of reporting an error"));
                    break;
                }
            }
        }
    }
    v.0
}

fn obs_json(o: &Obs) -> Value {
    json!({
        "serve_panic": o.serve_panic,
        "status": o.status,
        "headers": o.headers.iter().map(|(k, v)| json!([k, String::from_utf8_lossy(v)])).collect::<Vec<_>>(),
        "steps": o.steps.iter().map(|s| json!({
            "hint": [s.hint.0, s.hint.1], "eos": s.eos,
            "res": match &s.res {
                PollObs::Ent(a, n) => json!({"ent": [a, n]}),
                PollObs::Lit(b) => json!({"lit": String::from_utf8_lossy(b)}),
                PollObs::Err(e) => json!({"err": e}),
                PollObs::End => json!("end"),
                PollObs::Pending => json!("pending"),
                PollObs::Panic(p) => json!({"panic": p}),
            }})).collect::<Vec<_>>(),
        "get_range_calls": o.calls,
    })
}

pub fn run(sc: &Value) -> Value {
    let s = match parse_scenario(sc) {
        Ok(s) => s,
        Err(e) => return json!({"error": e}),
    };
    let o = execute(&s, &s.method);
    let mut violations = judge(&s, &s.method, &o);
    let mut out = json!({"observation": obs_json(&o)});
    // C15: HEAD mirrors GET
    if s.method == "HEAD" && o.serve_panic.is_none() {
        let g = execute(&s, "GET");
        if g.serve_panic.is_none() {
            if g.status != o.status {
                violations.push(json!({"property": "C15", "what": format!("HEAD status {} but GET status {}", o.status, g.status)}));
            }
            let norm = |h: &[(String, Vec<u8>)]| {
                let mut x: Vec<(String, Vec<u8>)> = h
                    .iter()
                    .filter(|(k, _)| k != "date" && k != "last-modified")
                    .cloned()
                    .collect();
                x.sort();
                x
            };
            if norm(&g.headers) != norm(&o.headers) {
                violations.push(json!({"property": "C15", "what": "HEAD headers differ from GET headers"}));
            }
        }
        out["get_twin"] = obs_json(&g);
    }
    out["violations"] = Value::Array(violations);
    out
}
