//! Independent text parsers for request header values (used by the native oracle only).
use crate::oracle::Spec;

pub enum RangeText {
    /// other unit / not the `bytes=` grammar => must be ignored
    Ignored,
    /// grammatical byte-range-set (numbers that do not fit u64 are None)
    Set(Vec<Spec>),
    /// shapes the property says nothing about (first > last, whitespace in odd places, empty
    /// list elements, "+" signs, case variants of the unit): no C03 judgement
    Unjudged,
}

fn digits(s: &[u8]) -> Option<Option<u64>> {
    if s.is_empty() || !s.iter().all(|c| c.is_ascii_digit()) {
        return None;
    }
    let mut v: u128 = 0;
    for c in s {
        v = v.saturating_mul(10).saturating_add((c - b'0') as u128);
        if v > u64::MAX as u128 {
            return Some(None);
        }
    }
    Some(Some(v as u64))
}

pub fn parse_range(v: &[u8]) -> RangeText {
    if v.iter().any(|&b| !(b == b'\t' || (32..127).contains(&b))) {
        return RangeText::Ignored; // not visible ASCII: cannot be the grammar
    }
    let Some(rest) = v.strip_prefix(b"bytes=") else {
        // case variants of the unit name are grammatical per ABNF case-insensitivity
        if v.len() >= 6 && v[..6].eq_ignore_ascii_case(b"bytes=") {
            return RangeText::Unjudged;
        }
        return RangeText::Ignored;
    };
    let mut specs = Vec::new();
    for (i, el) in rest.split(|&b| b == b',').enumerate() {
        // optional whitespace is judged only AFTER commas (what the property quantifies over)
        let t: &[u8] = {
            let mut t = el;
            while let [b' ' | b'\t', tail @ ..] = t {
                t = tail;
            }
            t
        };
        if i == 0 && t.len() != el.len() {
            return RangeText::Unjudged;
        }
        if t.is_empty() || t.iter().any(|&b| b == b' ' || b == b'\t' || b == b'+') {
            // empty element, trailing / inner whitespace, signs
            if t.iter().all(|&b| b.is_ascii_digit() || b == b'-' || b == b' ' || b == b'\t' || b == b'+') {
                return RangeText::Unjudged;
            }
            return RangeText::Ignored;
        }
        let Some(h) = t.iter().position(|&b| b == b'-') else {
            return RangeText::Ignored;
        };
        let (a, b) = (&t[..h], &t[h + 1..]);
        if a.is_empty() {
            match digits(b) {
                Some(n) => specs.push(Spec::Suffix(n)),
                None => return RangeText::Ignored,
            }
        } else {
            let Some(first) = digits(a) else { return RangeText::Ignored };
            if b.is_empty() {
                specs.push(Spec::From(first));
            } else {
                let Some(last) = digits(b) else { return RangeText::Ignored };
                if let (Some(f), Some(l)) = (first, last) {
                    if f > l {
                        return RangeText::Unjudged;
                    }
                }
                specs.push(Spec::FirstLast(first, last));
            }
        }
    }
    if specs.is_empty() {
        return RangeText::Ignored;
    }
    RangeText::Set(specs)
}

/// entity-tag list: `*` or 1#entity-tag. None = malformed.
pub enum TagList {
    Star,
    Tags(Vec<Vec<u8>>),
}
pub fn parse_tag_list(v: &[u8]) -> Option<TagList> {
    if v == b"*" {
        return Some(TagList::Star);
    }
    let mut tags = Vec::new();
    let mut i = 0;
    loop {
        let s = i;
        if v[i..].starts_with(b"W/") {
            i += 2;
        }
        if i >= v.len() || v[i] != b'"' {
            return None;
        }
        i += 1;
        while i < v.len() && v[i] != b'"' {
            i += 1;
        }
        if i >= v.len() {
            return None;
        }
        i += 1;
        tags.push(v[s..i].to_vec());
        // OWS "," OWS
        let mut j = i;
        while j < v.len() && (v[j] == b' ' || v[j] == b'\t') {
            j += 1;
        }
        if j == v.len() {
            if j != i {
                return None; // trailing whitespace
            }
            break;
        }
        if v[j] != b',' {
            return None;
        }
        if j != i {
            // whitespace BEFORE the comma: grammatical, but outside what the property
            // quantifies over ("tags containing ', '", lists "element by element")
            return None;
        }
        j += 1;
        while j < v.len() && (v[j] == b' ' || v[j] == b'\t') {
            j += 1;
        }
        if j == v.len() {
            return None;
        }
        i = j;
    }
    Some(TagList::Tags(tags))
}
